"""Fork-per-case worker pool.  N zygotes (each has imported the compiler once) fork one child
per case; the child runs fn(case), writes the pickled result to a pipe and _exits.  Every case
thus starts from the identical post-import process state."""
from __future__ import annotations

import multiprocessing as mp
import os
import pickle
import select
import signal
import struct
import time
import traceback


def _run_isolated(fn, case, timeout):
    r, wfd = os.pipe()
    pid = os.fork()
    if pid == 0:
        os.close(r)
        try:
            try:
                res = fn(case)
            except BaseException as ex:  # noqa
                res = {"status": "harness_error", "error": f"{type(ex).__name__}: {ex}",
                       "tb": traceback.format_exc()[-1500:]}
            data = pickle.dumps(res)
            with os.fdopen(wfd, "wb") as f:
                f.write(struct.pack("<Q", len(data)))
                f.write(data)
        finally:
            os._exit(0)
    os.close(wfd)
    buf = b""
    deadline = time.time() + timeout
    timed_out = False
    with os.fdopen(r, "rb", buffering=0) as f:
        while True:
            left = deadline - time.time()
            if left <= 0:
                timed_out = True
                break
            rl, _, _ = select.select([f], [], [], min(left, 5.0))
            if rl:
                chunk = f.read(1 << 16)
                if not chunk:
                    break
                buf += chunk
    if timed_out:
        try:
            os.kill(pid, signal.SIGKILL)
        except ProcessLookupError:
            pass
    os.waitpid(pid, 0)
    if timed_out:
        return {"status": "timeout", "error": f"case exceeded {timeout}s"}
    if len(buf) < 8:
        return {"status": "harness_error", "error": "child died without a result"}
    (n,) = struct.unpack("<Q", buf[:8])
    if len(buf) - 8 != n:
        return {"status": "harness_error", "error": "truncated result"}
    return pickle.loads(buf[8:])


_FN = None
_TIMEOUT = 120


def _worker(item):
    idx, case = item
    return idx, _run_isolated(_FN, case, _TIMEOUT)


def _init(fn, timeout, init):
    global _FN, _TIMEOUT
    _FN = fn
    _TIMEOUT = timeout
    if init:
        init()


def run_cases(fn, cases, workers=None, timeout=120, init=None, progress=None):
    """Yield (index, result) for every case, in completion order."""
    workers = workers or int(os.environ.get("FV_WORKERS", "16"))
    ctx = mp.get_context("fork")
    if init:
        init()  # import once in the parent; zygotes inherit
    with ctx.Pool(workers, initializer=_init, initargs=(fn, timeout, None)) as pool:
        n = 0
        for idx, res in pool.imap_unordered(_worker, list(enumerate(cases)), chunksize=1):
            n += 1
            if progress and n % progress == 0:
                print(f"  .. {n}/{len(cases)}", flush=True)
            yield idx, res
