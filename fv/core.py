"""Runner shared by all checks: enumerate cases, execute them in the fork-per-case pool, triage
failures against the committed known-findings index, write replay files and evidence."""
from __future__ import annotations

import argparse
import hashlib
import json
import os
import random
import sys
import time

from . import pool

VERIF = os.path.dirname(os.path.dirname(os.path.abspath(__file__)))
REPO = os.environ.get("FV_REPO", "/repo")


def sha(obj):
    return hashlib.sha1(json.dumps(obj, sort_keys=True, default=str).encode()).hexdigest()[:16]


def case_id(case):
    """Stable identity: canonical description without volatile keys (those starting with _)."""
    return sha({k: v for k, v in case.items() if not k.startswith("_")})


class Check:
    """Subclass per property."""
    pid = "C00"
    level = "exploration"
    timeout = 180
    assumptions = []
    rule = ""

    def cases(self, tier):          # -> list of dict (JSON-serialisable)
        raise NotImplementedError

    def run_case(self, case):       # executed in a forked child; -> result dict
        raise NotImplementedError

    def selftest(self):             # harness self tests; raise on failure
        pass

    def nontrivial(self, case, res):
        return bool(res.get("nontrivial"))

    def extra_coverage(self, results):
        return {}


def load_known(pid):
    """Returns ({case_id: (digest, finding_id)}, {finding_id: entry})."""
    findings = {}
    path = os.path.join(VERIF, "known_findings.jsonl")
    if os.path.exists(path):
        for line in open(path):
            line = line.strip()
            if not line or line.startswith("#"):
                continue
            if line.startswith("fixed:"):
                continue
            ent = json.loads(line)
            if ent.get("property") == pid and ent.get("status") == "open":
                findings[ent["id"]] = ent
    cases = {}
    cpath = os.path.join(VERIF, "known_cases", f"{pid}.json")
    if os.path.exists(cpath):
        doc = json.load(open(cpath))
        for fid, lst in doc.get("cases", {}).items():
            if fid not in findings:
                continue  # cases of a finding that is not open suppress nothing
            for cid, dg in lst.items():
                cases[cid] = (dg, fid)
    return cases, findings


_CHECK = None


def _child(case):
    from . import harness
    harness.install()
    t = time.time()
    res = _CHECK.run_case(case)
    res.setdefault("status", "pass")
    res["_t"] = round(time.time() - t, 3)
    return res


def _init():
    from . import harness
    harness.install()
    # warm the grammar cache so every forked child inherits the parsed tables
    try:
        harness.compile_src('Signal warm = ("signal-A", 1);\nSignal warm2 = warm + 1;\n')
    except harness.Rejected:
        pass


def write_replay(pid, case, res):
    d = os.path.join(VERIF, "replays", pid)
    os.makedirs(d, exist_ok=True)
    path = os.path.join(d, f"{case_id(case)}.json")
    with open(path, "w") as f:
        json.dump({"property": pid, "case": case, "digest": res.get("digest"),
                   "detail": res.get("detail"), "status": res.get("status")}, f, indent=1, default=str)
    return path


def run_check(check: Check, argv=None):
    global _CHECK
    _CHECK = check
    ap = argparse.ArgumentParser()
    ap.add_argument("--tier", default=os.environ.get("VERIF_TIER", "quick"), choices=["quick", "thorough"])
    ap.add_argument("--replay")
    ap.add_argument("--learn", action="store_true", help="maintenance: dump all failing cases")
    ap.add_argument("--limit", type=int, default=0)
    ap.add_argument("--filter", default="")
    ap.add_argument("--show", type=int, default=8)
    args = ap.parse_args(argv)
    seed = int(os.environ.get("VERIF_SEED", "0"))
    pid = check.pid
    t0 = time.time()

    from . import harness
    try:
        harness.install()
        from . import selftest
        selftest.run()
        check.selftest()
    except harness.HarnessError as ex:
        print(f"HARNESS-ERROR {pid}: {ex}")
        return 2

    if args.replay:
        return replay(check, args.replay)

    cases = check.cases(args.tier)
    ids = [case_id(c) for c in cases]
    if len(set(ids)) != len(ids):
        seen = {}
        for i, c in zip(ids, cases):
            if i in seen:
                print("HARNESS-ERROR duplicate case", json.dumps(c)[:300])
                return 2
            seen[i] = c
    if args.filter:
        cases = [c for c in cases if args.filter in json.dumps(c)]
    order = list(range(len(cases)))
    random.Random(seed).shuffle(order)
    if args.limit:
        order = order[:args.limit]
    run_list = [cases[i] for i in order]
    known, findings = load_known(pid)

    results = [None] * len(run_list)
    print(f"[{pid}] tier={args.tier} seed={seed} cases={len(run_list)}", flush=True)
    for idx, res in pool.run_cases(_child, run_list, timeout=check.timeout, init=_init,
                                   progress=max(200, len(run_list) // 10)):
        results[idx] = res

    counts = {}
    viol = []
    attributed = {}
    no_longer = []
    harness_bad = []
    learn = []
    outcomes = set()
    nontrivial = 0
    for case, res in zip(run_list, results):
        st = res.get("status", "pass")
        counts[st] = counts.get(st, 0) + 1
        cid = case_id(case)
        outcomes.add(res.get("outcome", res.get("digest", st)))
        if check.nontrivial(case, res):
            nontrivial += 1
        if st in ("harness_error", "timeout"):
            harness_bad.append((case, res))
        elif st == "fail":
            if args.learn:
                learn.append({"id": cid, "digest": res.get("digest"), "case": case,
                              "detail": res.get("detail"), "tag": res.get("tag")})
            k = known.get(cid)
            if k is not None and k[0] == res.get("digest"):
                attributed.setdefault(k[1], []).append(cid)
            else:
                viol.append((case, res, "listed-but-differs" if k is not None else "unlisted"))
        else:
            if cid in known and st == "pass":
                no_longer.append(cid)

    wall = time.time() - t0
    # ---- evidence ---------------------------------------------------------------------
    samples = []
    for case, res in list(zip(run_list, results))[:3]:
        samples.append({"case": case, "status": res.get("status"), "observed": res.get("sample")})
    cov = {
        "evaluations": sum(int(r.get("evaluations", 1)) for r in results),
        "distinct_nontrivial": nontrivial,
        "rule": check.rule,
        "samples": samples,
        "cases": len(run_list),
        "status_counts": counts,
        "distinct_outcomes": len(outcomes),
        "exhaustive": not args.limit and not args.filter,
        "known_finding_cases_exercised": {f: len(v) for f, v in attributed.items()},
        "known_cases_no_longer_reproducing": len(no_longer),
        "inconclusive": counts.get("inconclusive", 0),
        "rejected_by_compiler": counts.get("rejected", 0),
    }
    for key in ("states", "transitions", "ticks", "valuations", "compiles"):
        tot = sum(int(r.get(key, 0)) for r in results)
        if tot:
            cov[key] = tot
    if check.level == "model_checking":
        cov.setdefault("states", 0)
        cov.setdefault("transitions", 0)
        cov["traces_validated_against_impl"] = sum(int(r.get("traces", 0)) for r in results)
    slow = sorted(((r.get("_t", 0), i) for i, r in enumerate(results)), reverse=True)[:3]
    cov["slowest_cases_s"] = [round(t, 2) for t, _ in slow]
    cov["cpu_s"] = round(sum(r.get("_t", 0) for r in results), 1)
    if os.environ.get("FV_SLOW"):
        for t, i in slow:
            print("SLOW", t, json.dumps(run_list[i], default=str)[:300])
    cov.update(check.extra_coverage(list(zip(run_list, results))))
    ev = {"property_id": pid, "tier": args.tier, "seed": seed, "level": check.level,
          "coverage": cov, "assumptions": check.assumptions, "wall_s": round(wall, 2),
          "violations": len(viol)}
    # evidence/ describes runs against /repo itself; a maintenance run against another tree (FV_REPO, seeded changes)
    # or of a slice of the cases (--filter / --limit) writes elsewhere
    from . import harness as _h
    evdir = os.path.join(VERIF, "evidence")
    if os.path.realpath(_h.REPO) != "/repo" or args.filter or args.limit or os.environ.get("FV_EVIDENCE_DIR"):
        evdir = os.environ.get("FV_EVIDENCE_DIR", "/tmp/fv_evidence_scratch")
    cov["tree"] = _h.REPO
    os.makedirs(evdir, exist_ok=True)
    with open(os.path.join(evdir, f"{pid}.json"), "w") as f:
        json.dump(ev, f, indent=1, default=str)

    if args.learn:
        lp = os.path.join(os.environ.get("FV_LEARN_DIR", "/tmp"), f"learn_{pid}_{args.tier}.json")
        with open(lp, "w") as f:
            json.dump(learn, f, indent=1, default=str)
        print(f"[{pid}] learn: {len(learn)} failing cases -> {lp}")

    print(f"[{pid}] {counts} wall={wall:.1f}s evaluations={cov['evaluations']} nontrivial={nontrivial}")
    if harness_bad:
        for case, res in harness_bad[:5]:
            print(f"HARNESS-ERROR {pid}: {res.get('error')} case={json.dumps(case, default=str)[:300]}")
            if res.get("tb"):
                print(res["tb"])
        return 2
    for fid, ent in sorted(findings.items()):
        n = len(attributed.get(fid, []))
        print(f"KNOWN-FINDING: property={pid} {fid}: {ent['what']} [{n} listed case(s) exercised in this tier]")
    if no_longer:
        print(f"[{pid}] note: {len(no_longer)} listed known case(s) no longer reproduce")
    if viol:
        viol.sort(key=lambda x: (len(json.dumps(x[0], default=str)), json.dumps(x[0], default=str)))
        for case, res, why in viol[:args.show]:
            path = write_replay(pid, case, res)
            print(f"VIOLATION property={pid} replay={path}")
            print(f"   ({why}) {str(res.get('detail'))[:600]}")
        if len(viol) > args.show:
            for case, res, why in viol[args.show:200]:
                write_replay(pid, case, res)
            print(f"[{pid}] ... {len(viol)} violating cases in total")
        return 1
    return 0


def replay(check, path):
    doc = json.load(open(path))
    case = doc["case"]
    r1 = pool._run_isolated(_child_replay, case, check.timeout)
    r2 = pool._run_isolated(_child_replay, case, check.timeout)
    print(json.dumps({"status": r1.get("status"), "digest": r1.get("digest"),
                      "detail": r1.get("detail")}, indent=1, default=str)[:4000])
    if r1.get("digest") != r2.get("digest") or r1.get("status") != r2.get("status"):
        print("HARNESS-ERROR replay not deterministic")
        return 2
    if r1.get("status") == "fail":
        print(f"VIOLATION property={check.pid} replay={path}")
        return 1
    return 0


def _child_replay(case):
    _init()
    return _child(case)


def main_for(check_cls):
    try:
        rc = run_check(check_cls())
    except SystemExit:
        raise
    except BaseException as ex:   # a bug in the machinery must never look like a verdict
        import traceback
        traceback.print_exc()
        print(f"HARNESS-ERROR {check_cls.pid}: {type(ex).__name__}: {ex}")
        rc = 2
    sys.exit(rc)
