"""Self-tests of the circuit model on hand-written circuits with known behaviour.  Run before
every check; a failure is a harness error (exit 2), never a VIOLATION."""
from __future__ import annotations

from .harness import HarnessError
from .sim import Circuit, Unmodelled, arith_op, w, INT_MIN, INT_MAX


def V(n):
    return {"type": "virtual", "name": n}


def const(num, sigs):
    return {"entity_number": num, "name": "constant-combinator", "position": {"x": num, "y": 0},
            "control_behavior": {"sections": {"sections": [{"index": 1, "filters": [
                dict(index=i + 1, name=n, type=t, quality="normal", comparator="=", count=c)
                for i, (t, n, c) in enumerate(sigs)]}]}}}


def arith(num, **c):
    return {"entity_number": num, "name": "arithmetic-combinator", "position": {"x": num, "y": 2},
            "control_behavior": {"arithmetic_conditions": c}}


def decider(num, conds, outs):
    return {"entity_number": num, "name": "decider-combinator", "position": {"x": num, "y": 2},
            "control_behavior": {"decider_conditions": {"conditions": conds, "outputs": outs}}}


def bp(ents, wires):
    return {"entities": ents, "wires": wires}


def settle_out(c, num, horizon=50):
    st, k = c.settle(c.initial_state(), horizon)
    return {kk[1]: v for kk, v in st[num].items()}, k


def expect(name, got, want):
    if got != want:
        raise HarnessError(f"simulator self-test '{name}' failed: got {got!r}, want {want!r}")


def run():
    # arithmetic semantics
    expect("wrap+", arith_op("+", INT_MAX, 1), INT_MIN)
    expect("wrap*", arith_op("*", 65536, 65536), 0)
    expect("div trunc", arith_op("/", -7, 2), -3)
    expect("div trunc2", arith_op("/", 7, -2), -3)
    expect("mod sign", arith_op("%", -7, 3), -1)
    expect("mod sign2", arith_op("%", 7, -3), 1)
    expect("div0", arith_op("/", 5, 0), 0)
    expect("mod0", arith_op("%", 5, 0), 0)
    expect("sar", arith_op(">>", -8, 1), -4)
    expect("shl wrap", arith_op("<<", 1, 31), INT_MIN)
    expect("pow", arith_op("^", 3, 4), 81)
    expect("pow wrap", arith_op("^", 2, 31), INT_MIN)
    expect("xor", arith_op("XOR", -1, 5), -6)
    for bad in (("<<", 1, 32), ("^", 2, -1), ("/", INT_MIN, -1)):
        try:
            arith_op(*bad)
            raise HarnessError(f"self-test: {bad} should be unmodelled")
        except Unmodelled:
            pass

    # 1. one arithmetic combinator: A*2+? -> B
    c = Circuit(bp([const(1, [("virtual", "signal-A", 21)]),
                    arith(2, first_signal=V("signal-A"), second_constant=2, output_signal=V("signal-B"))],
                   [[1, 1, 2, 1]]))
    expect("mul default op", settle_out(c, 2), ({"signal-B": 42}, 1))

    # 2. red+green sum at input, per-operand network selection
    c = Circuit(bp([const(1, [("virtual", "signal-A", 10)]), const(2, [("virtual", "signal-A", 3)]),
                    arith(3, first_signal=V("signal-A"), first_signal_networks={"green": False},
                          operation="-", second_signal=V("signal-A"), second_signal_networks={"red": False},
                          output_signal=V("signal-A")),
                    arith(4, first_signal=V("signal-A"), operation="+", second_constant=0,
                          output_signal=V("signal-C"))],
                   [[1, 1, 3, 1], [2, 2, 3, 2], [1, 1, 4, 1], [2, 2, 4, 2]]))
    expect("network selection", settle_out(c, 3)[0], {"signal-A": 7})
    expect("red+green sum", settle_out(c, 4)[0], {"signal-C": 13})

    # 3. counter with self feedback: A + 1 -> A, output wired to own input
    c = Circuit(bp([arith(1, first_signal=V("signal-A"), operation="+", second_constant=1,
                          output_signal=V("signal-A"))], [[1, 3, 1, 1]]))
    st = c.initial_state()
    seq = []
    for _ in range(4):
        st = c.tick(st)
        seq.append(st[1].get(("virtual", "signal-A"), 0))
    expect("counter", seq, [1, 2, 3, 4])

    # 4. each * const, zero signals vanish
    c = Circuit(bp([const(1, [("virtual", "signal-A", 2), ("item", "iron-plate", -3), ("virtual", "signal-B", 0)]),
                    arith(2, first_signal=V("signal-each"), second_constant=5, output_signal=V("signal-each"))],
                   [[1, 1, 2, 1]]))
    expect("each", settle_out(c, 2)[0], {"signal-A": 10, "iron-plate": -15})

    # 5. each -> named output sums
    c = Circuit(bp([const(1, [("virtual", "signal-A", 2), ("item", "iron-plate", -3)]),
                    arith(2, first_signal=V("signal-each"), operation="+", second_constant=0,
                          output_signal=V("signal-S"))], [[1, 1, 2, 1]]))
    expect("each sum", settle_out(c, 2)[0], {"signal-S": -1})

    # 6. decider constant vs copy, default comparator '<', default constant 0
    c = Circuit(bp([const(1, [("virtual", "signal-A", -4)]),
                    decider(2, [{"first_signal": V("signal-A")}],
                            [{"signal": V("signal-A")}, {"signal": V("signal-B"), "copy_count_from_input": False}]),
                    decider(3, [{"first_signal": V("signal-A"), "comparator": ">", "constant": 0}],
                            [{"signal": V("signal-B"), "copy_count_from_input": False, "constant": 9}])],
                   [[1, 1, 2, 1], [1, 1, 3, 1]]))
    expect("decider defaults", settle_out(c, 2)[0], {"signal-A": -4, "signal-B": 1})
    expect("decider false", settle_out(c, 3)[0], {})

    # 7. everything / anything truth tables incl. empty input
    for sigs, ev_gt0, an_gt0 in (([], True, False), ([("virtual", "signal-A", 1)], True, True),
                                 ([("virtual", "signal-A", 1), ("virtual", "signal-B", -1)], False, True),
                                 ([("virtual", "signal-A", -1)], False, False)):
        c = Circuit(bp([const(1, sigs),
                        decider(2, [{"first_signal": V("signal-everything"), "comparator": ">", "constant": 0}],
                                [{"signal": V("signal-X"), "copy_count_from_input": False}]),
                        decider(3, [{"first_signal": V("signal-anything"), "comparator": ">", "constant": 0}],
                                [{"signal": V("signal-X"), "copy_count_from_input": False}])],
                       [[1, 1, 2, 1], [1, 1, 3, 1]]))
        expect("everything", bool(settle_out(c, 2)[0]), ev_gt0)
        expect("anything", bool(settle_out(c, 3)[0]), an_gt0)

    # 8. AND binds tighter than OR:  F and T or T  -> true ; T or T and F -> true (ltr: false)
    cond = lambda s, ct=None: dict({"first_signal": V(s), "comparator": ">", "constant": 0}, **({"compare_type": ct} if ct else {}))
    c = Circuit(bp([const(1, [("virtual", "signal-T", 1)]),
                    decider(2, [cond("signal-T"), cond("signal-T", "or"), cond("signal-F", "and")],
                            [{"signal": V("signal-X"), "copy_count_from_input": False}])],
                   [[1, 1, 2, 1]]))
    expect("and over or", settle_out(c, 2)[0], {"signal-X": 1})
    expect("and/or differs counted", c.and_or_differs > 0, True)

    # 9. each filter decider with copy
    c = Circuit(bp([const(1, [("virtual", "signal-A", 10), ("virtual", "signal-B", 5), ("virtual", "signal-C", -3)]),
                    decider(2, [{"first_signal": V("signal-each"), "comparator": ">", "constant": 4}],
                            [{"signal": V("signal-each")}]),
                    decider(3, [{"first_signal": V("signal-each"), "comparator": ">", "constant": 4}],
                            [{"signal": V("signal-each"), "copy_count_from_input": False}])],
                   [[1, 1, 2, 1], [1, 1, 3, 1]]))
    expect("each filter", settle_out(c, 2)[0], {"signal-A": 10, "signal-B": 5})
    expect("each filter const", settle_out(c, 3)[0], {"signal-A": 1, "signal-B": 1})

    # 10. gating with everything output
    c = Circuit(bp([const(1, [("virtual", "signal-A", 10), ("virtual", "signal-B", 5)]),
                    const(2, [("virtual", "signal-G", 1)]),
                    decider(3, [{"first_signal": V("signal-G"), "comparator": ">", "constant": 0,
                                 "first_signal_networks": {"red": False}}],
                            [{"signal": V("signal-everything"), "networks": {"green": False}}])],
                   [[1, 1, 3, 1], [2, 2, 3, 2]]))
    expect("gate everything", settle_out(c, 3)[0], {"signal-A": 10, "signal-B": 5})

    # 11. RS latch  S > R with feedback of the output on S
    c = Circuit(bp([const(1, [("virtual", "signal-S", 1)]), const(2, []),
                    decider(3, [{"first_signal": V("signal-S"), "comparator": ">", "second_signal": V("signal-R")}],
                            [{"signal": V("signal-S"), "copy_count_from_input": False}])],
                   [[1, 1, 3, 1], [2, 1, 3, 1], [3, 3, 3, 1]]))
    st, k = c.settle(c.initial_state(), 20)
    expect("latch set", st[3], {("virtual", "signal-S"): 1})
    c.const_override[1] = {}
    st, k = c.settle(st, 20)
    expect("latch holds", st[3], {("virtual", "signal-S"): 1})
    c.const_override[2] = {("virtual", "signal-R"): 1}
    st, k = c.settle(st, 20)
    expect("latch reset", st[3], {})

    # 12. item and virtual signals of the same name are different signals
    c = Circuit(bp([const(1, [("item", "signal-A", 4)]),
                    arith(2, first_signal=V("signal-A"), operation="+", second_constant=1, output_signal=V("signal-B"))],
                   [[1, 1, 2, 1]]))
    expect("type matters", settle_out(c, 2)[0], {"signal-B": 1})

    # 13. poles join networks; copper ignored
    pole = {"entity_number": 9, "name": "medium-electric-pole", "position": {"x": 5, "y": 5}}
    c = Circuit(bp([const(1, [("virtual", "signal-A", 4)]), pole,
                    arith(2, first_signal=V("signal-A"), operation="+", second_constant=1, output_signal=V("signal-B"))],
                   [[1, 1, 9, 1], [9, 1, 2, 1], [9, 5, 2, 5]]))
    expect("relay pole", settle_out(c, 2)[0], {"signal-B": 5})

    # 14. entity condition
    lamp = {"entity_number": 3, "name": "small-lamp", "position": {"x": 0, "y": 0},
            "control_behavior": {"circuit_enabled": True,
                                 "circuit_condition": {"first_signal": V("signal-A"), "comparator": ">", "constant": 3}}}
    c = Circuit(bp([const(1, [("virtual", "signal-A", 4)]), lamp], [[1, 1, 3, 1]]))
    expect("lamp on", c.entity_condition(c.initial_state(), 3)[0], True)
    c.const_override[1] = {("virtual", "signal-A"): 3}
    expect("lamp off", c.entity_condition(c.initial_state(), 3)[0], False)

    c = Circuit(bp([lamp], []))
    expect("unconnected lamp ignores its condition", c.entity_condition(c.initial_state(), 3), (True, "not-connected"))

    # 15. non-settling oscillator is reported
    c = Circuit(bp([decider(1, [{"first_signal": V("signal-A"), "comparator": "=", "constant": 0}],
                            [{"signal": V("signal-A"), "copy_count_from_input": False}])], [[1, 3, 1, 1]]))
    st, k = c.settle(c.initial_state(), 30)
    expect("oscillator", k, None)
    return True
