"""Observation of the emitted blueprint exactly as `observe_at` says (DESIGN 2.5)."""
from __future__ import annotations

import re

from .sim import Circuit, sigkey, w

DESC = re.compile(r"^\[(?P<src>[^\]]*?)(?::(?P<line>\d+))?\] (?P<what>.*)$", re.S)


def desc(e):
    return e.get("player_description") or ""


def what(e):
    m = DESC.match(desc(e))
    return m.group("what") if m else desc(e)


def find_labelled(bp, name, kind):
    """kind: 'anchor' | 'input'.  Returns list of entity dicts."""
    out = []
    for e in bp["entities"]:
        wt = what(e)
        if kind == "anchor" and wt.startswith(f"{name} (output anchor)"):
            out.append(e)
        elif kind == "input" and wt.startswith(f"{name} (value="):
            out.append(e)
    return out


def label_signal(e):
    wt = what(e)
    if " -> " in wt:
        return wt.rsplit(" -> ", 1)[1].strip()
    return None


def const_filters(e):
    cb = e.get("control_behavior", {}) or {}
    out = []
    for sec in cb.get("sections", {}).get("sections", []) or []:
        for f in sec.get("filters", []) or []:
            if "name" in f:
                out.append(f)
    return out


class Inputs:
    """Maps declared input names to their constant combinators; sets valuations."""

    def __init__(self, circ: Circuit, names, placeholders=None):
        self.circ = circ
        self.map = {}
        self.problems = []
        for n in names:
            es = find_labelled(circ.bp, n, "input")
            es = [e for e in es if e["name"] == "constant-combinator"]
            if len(es) != 1:
                self.problems.append(f"input {n}: {len(es)} labelled constant combinators")
                continue
            fs = const_filters(es[0])
            if len(fs) != 1:
                # an input whose placeholder is 0 has no filter: cannot learn its signal
                self.problems.append(f"input {n}: {len(fs)} filters")
                continue
            if placeholders is not None and fs[0].get("count", 0) != placeholders[n]:
                self.problems.append(
                    f"input {n}: placeholder {placeholders[n]} but combinator holds {fs[0].get('count')}")
                continue
            self.map[n] = (es[0]["entity_number"], sigkey(fs[0]))

    def set(self, valuation, partial=False):
        for n, v in valuation.items():
            if partial and n not in self.map:
                continue
            num, k = self.map[n]
            self.circ.const_override[num] = {k: w(v)} if w(v) != 0 else {}

    def signal_of(self, n):
        return self.map[n][1]


def output_view(circ: Circuit, name):
    """How a named result can be observed.  Returns (kind, entity_number, label_signal_name)
    with kind 'anchor' | 'const' | None."""
    an = find_labelled(circ.bp, name, "anchor")
    if len(an) == 1:
        return "anchor", an[0]["entity_number"], label_signal(an[0])
    if len(an) > 1:
        return "multi-anchor", None, None
    cs = [e for e in find_labelled(circ.bp, name, "input") if e["name"] == "constant-combinator"]
    if len(cs) == 1:
        return "const", cs[0]["entity_number"], label_signal(cs[0])
    return None, None, None


def read_output(circ: Circuit, state, view):
    """All signals visible for a result: {(type,name): value}."""
    kind, num, _ = view
    if kind == "anchor":
        return circ.at(state, num)
    if kind == "const":
        return {k: v for k, v in circ.const_out(num).items() if v != 0}
    return None


def by_name(sigs):
    """Collapse (type, name) keys to names; a name occurring under two types is kept apart."""
    out = {}
    for (t, n), v in sigs.items():
        if n in out:
            out[f"{n}@{t}"] = v
        else:
            out[n] = v
    return out
