"""Geometry from the game data shipped with draftsman (collision boxes, tile sizes, wire reach)."""
from __future__ import annotations

import math

_cache = {}


def proto(name):
    if name not in _cache:
        from draftsman.data import entities
        _cache[name] = entities.raw.get(name, {})
    return _cache[name]


def collision_box(name):
    cb = proto(name).get("collision_box")
    if not cb:
        return ((-0.4, -0.4), (0.4, 0.4))
    (a, b), (c, d) = cb
    return ((a, b), (c, d))


def tile_size(name, direction=0):
    (a, b), (c, d) = collision_box(name)
    wd, ht = math.ceil(c - a - 1e-9), math.ceil(d - b - 1e-9)
    wd, ht = max(wd, 1), max(ht, 1)
    if direction in (4, 12, 2, 6) and direction % 8 == 4:   # 2.0: 16 directions; 4 = east, 12 = west
        wd, ht = ht, wd
    return wd, ht


def top_left_tile(e):
    wd, ht = tile_size(e["name"], e.get("direction", 0))
    x, y = e["position"]["x"], e["position"]["y"]
    return int(math.floor(x - wd / 2.0 + 1e-6)), int(math.floor(y - ht / 2.0 + 1e-6))


# ------------------------------------------------------------------------------------------
# paste validity (C08) and power coverage (C18)
# ------------------------------------------------------------------------------------------
POLE_NAMES = ("small-electric-pole", "medium-electric-pole", "big-electric-pole", "substation")
FOUR_CONN = ("arithmetic-combinator", "decider-combinator", "selector-combinator")


def box_of(e):
    (a, b), (c, d) = collision_box(e["name"])
    dr = e.get("direction", 0) % 16
    if dr in (4, 12):
        a, b, c, d = b, a, d, c      # rotated by 90 degrees: swap axes (boxes are symmetric enough)
        a, c = min(a, c), max(a, c)
        b, d = min(b, d), max(b, d)
    x, y = e["position"]["x"], e["position"]["y"]
    return (x + a, y + b, x + c, y + d)


_reach = {}


def _ent(name):
    if name not in _reach:
        from draftsman.entity import new_entity
        import warnings
        with warnings.catch_warnings():
            warnings.simplefilter("ignore")
            e = new_entity(name)
        _reach[name] = (getattr(e, "circuit_wire_max_distance", None), getattr(e, "maximum_wire_distance", None))
    return _reach[name]


def wire_reach(name):
    """circuit wire reach as draftsman derives it from the game data (poles: their wire distance)"""
    r = _ent(name)[0]
    if r is None:
        r = proto(name).get("circuit_wire_max_distance")
    return r if r is not None else 0


def copper_reach(name):
    r = _ent(name)[1]
    return r if r is not None else proto(name).get("maximum_wire_distance", 0)


def connectors_of(name):
    if name in FOUR_CONN:
        return {1, 2, 3, 4}
    if name in POLE_NAMES:
        return {1, 2, 5}
    if name == "power-switch":
        return {1, 2, 5, 6}
    return {1, 2}


def colour(c):
    return {1: "red", 3: "red", 2: "green", 4: "green", 5: "copper", 6: "copper"}.get(c)


def paste_problems(bp):
    """Violated predicates of C08, canonical (no entity numbers / positions)."""
    ents = {e["entity_number"]: e for e in bp.get("entities", [])}
    probs = []
    lst = list(ents.values())
    boxes = [box_of(e) for e in lst]
    order = sorted(range(len(lst)), key=lambda i: boxes[i][0])
    eps = 1e-6
    for ii, i in enumerate(order):
        bi = boxes[i]
        for j in order[ii + 1:]:
            bj = boxes[j]
            if bj[0] >= bi[2] - eps:
                break
            if bi[1] < bj[3] - eps and bj[1] < bi[3] - eps and bi[0] < bj[2] - eps:
                probs.append(("overlap",) + tuple(sorted((lst[i]["name"], lst[j]["name"]))))
    seen = set()
    for wire in bp.get("wires", []) or []:
        if len(wire) != 4:
            probs.append(("malformed-wire", str(wire)))
            continue
        a, ca, b, cb = wire
        if a not in ents or b not in ents:
            probs.append(("wire-to-missing-entity",))
            continue
        ea, eb = ents[a], ents[b]
        if ca not in connectors_of(ea["name"]) or cb not in connectors_of(eb["name"]):
            probs.append(("no-such-connector", ea["name"], ca, eb["name"], cb))
            continue
        if colour(ca) != colour(cb):
            probs.append(("colour-mismatch", ea["name"], ca, eb["name"], cb))
            continue
        d = math.dist((ea["position"]["x"], ea["position"]["y"]), (eb["position"]["x"], eb["position"]["y"]))
        if colour(ca) == "copper":
            reach = min(copper_reach(ea["name"]), copper_reach(eb["name"]))
        else:
            reach = min(wire_reach(ea["name"]), wire_reach(eb["name"]))
        if d > reach + 1e-6:
            probs.append(("wire-too-long", colour(ca)) + tuple(sorted((ea["name"], eb["name"]))))
    return sorted(probs)


def has_electric_source(name):
    p = proto(name)
    es = p.get("energy_source") or {}
    return es.get("type") == "electric"


def supply_problems(bp, pole_name):
    """C18: every electric consumer overlaps the supply area of a pole of type pole_name; all poles
    form one copper network with every copper wire within reach."""
    ents = {e["entity_number"]: e for e in bp.get("entities", [])}
    poles = [e for e in ents.values() if e["name"] == pole_name]
    allpoles = [e for e in ents.values() if e["name"] in POLE_NAMES]
    probs = []
    r = proto(pole_name).get("supply_area_distance", 0)
    areas = [(p["position"]["x"] - r, p["position"]["y"] - r, p["position"]["x"] + r, p["position"]["y"] + r) for p in poles]
    for e in ents.values():
        if e["name"] in POLE_NAMES or not has_electric_source(e["name"]):
            continue
        b = box_of(e)
        if not any(b[0] < a[2] and a[0] < b[2] and b[1] < a[3] and a[1] < b[3] for a in areas):
            probs.append(("unpowered", e["name"]))
    # copper connectivity over all poles
    parent = {p["entity_number"]: p["entity_number"] for p in allpoles}

    def find(x):
        while parent[x] != x:
            parent[x] = parent[parent[x]]
            x = parent[x]
        return x
    for a, ca, b, cb in bp.get("wires", []) or []:
        if ca in (5, 6) and cb in (5, 6) and a in parent and b in parent:
            parent[find(a)] = find(b)
    comps = {find(p["entity_number"]) for p in allpoles}
    if len(comps) > 1:
        probs.append(("poles-not-one-network", len(comps)))
    return sorted(probs)
