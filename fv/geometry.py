"""Geometry from the game data shipped with draftsman (collision boxes, tile sizes, wire reach)."""
from __future__ import annotations

import math

_cache = {}


def proto(name):
    if name not in _cache:
        from draftsman.data import entities
        _cache[name] = entities.raw.get(name, {})
    return _cache[name]


def collision_box(name):
    cb = proto(name).get("collision_box")
    if not cb:
        return ((-0.4, -0.4), (0.4, 0.4))
    (a, b), (c, d) = cb
    return ((a, b), (c, d))


def tile_size(name, direction=0):
    (a, b), (c, d) = collision_box(name)
    wd, ht = math.ceil(c - a - 1e-9), math.ceil(d - b - 1e-9)
    wd, ht = max(wd, 1), max(ht, 1)
    if direction in (4, 12, 2, 6) and direction % 8 == 4:   # 2.0: 16 directions; 4 = east, 12 = west
        wd, ht = ht, wd
    return wd, ht


def top_left_tile(e):
    wd, ht = tile_size(e["name"], e.get("direction", 0))
    x, y = e["position"]["x"], e["position"]["y"]
    return int(math.floor(x - wd / 2.0 + 1e-6)), int(math.floor(y - ht / 2.0 + 1e-6))
