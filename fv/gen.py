"""Program alphabets shared by the checks (DESIGN 2.3)."""
from __future__ import annotations

from .lang import ARITH, CMP, LOGIC, PREC, B, I, V
from .sim import INT_MAX, INT_MIN

# canonical inputs: name -> declaration
INPUT_DECL = {
    "a": ("decl", "Signal", "a", ("lit", "signal-A", ("int", 0))),
    "b": ("decl", "Signal", "b", ("lit", "signal-A", ("int", 0))),   # same type as a
    "c": ("decl", "Signal", "c", ("lit", "signal-C", ("int", 0))),
    "d": ("decl", "Signal", "d", ("lit", "signal-D", ("int", 0))),
    "i": ("decl", "Signal", "i", ("lit", "iron-plate", ("int", 0))),
    "u": ("decl", "Signal", "u", ("int", 0)),                         # untyped
    "t": ("decl", "Signal", "t", ("lit", "signal-T", ("int", 0))),
    "s": ("decl", "Signal", "s", ("lit", "signal-S", ("int", 0))),
    "x": ("decl", "Signal", "x", ("lit", "signal-X", ("int", 0))),
    "y": ("decl", "Signal", "y", ("lit", "signal-Y", ("int", 0))),
    "r": ("decl", "Signal", "r", ("lit", "signal-R", ("int", 0))),
    "e": ("decl", "Signal", "e", ("lit", "signal-E", ("int", 0))),
    "hm": ("decl", "Signal", "hm", ("lit", "signal-M", ("int", 0))),     # an input of the memory cells' type
}
DEFAULT = (0, 1, -1, 2, 7, -8, INT_MAX, INT_MIN)
SHIFT_DOM = (0, 1, 5, 31)
POW_DOM = (0, 1, 2, 5)


def thaw(x):
    if isinstance(x, (list, tuple)):
        return tuple(thaw(y) for y in x)
    return x


def vars_in(e, acc=None):
    acc = set() if acc is None else acc
    if isinstance(e, tuple):
        if e and e[0] == "var":
            acc.add(e[1])
        elif e and e[0] in ("lit", "proj") and isinstance(e[1 if e[0] == "lit" else 2], tuple):
            acc.add(e[1 if e[0] == "lit" else 2][1])
            for y in e[1:]:
                vars_in(y, acc)
        else:
            for y in e[1:]:
                vars_in(y, acc)
    return acc


def role_domains(exprs, inputs, extra=None):
    """Per-input domain: inputs occurring in the right operand of a shift / power get the small
    domains for which the game's behaviour is modelled; literals an input is compared with add
    k-1, k, k+1."""
    shift, powr = set(), set()
    cmpk = {i: set() for i in inputs}

    def walk(e, ctx=None):
        if not isinstance(e, tuple) or not e:
            return
        if e[0] == "var":
            if ctx == "shift":
                shift.add(e[1])
            elif ctx == "pow":
                powr.add(e[1])
            return
        if e[0] == "flat":
            from .lang import doc_parse as dp
            walk(dp(e[1], e[2], e[3], e[4], e[5]), ctx)
            return
        if e[0] == "bin":
            op = e[1]
            walk(e[2], ctx)
            if op in ("<<", ">>"):
                walk(e[3], "shift")
            elif op == "**":
                walk(e[3], "pow")
            else:
                walk(e[3], ctx)
            if op in CMP:
                for x, y in ((e[2], e[3]), (e[3], e[2])):
                    if x[0] == "var" and x[1] in cmpk and y[0] == "int":
                        cmpk[x[1]].update((y[1] - 1, y[1], y[1] + 1))
            return
        for y in e[1:]:
            if isinstance(y, tuple):
                walk(y, ctx)

    for e in exprs:
        walk(e)
    dom = {}
    for i in inputs:
        if i in shift and i in powr:
            d = (0, 1, 5)
        elif i in shift:
            d = SHIFT_DOM
        elif i in powr:
            d = POW_DOM
        else:
            d = DEFAULT + tuple(sorted(k for k in cmpk[i] if k not in DEFAULT and INT_MIN <= k <= INT_MAX))
        dom[i] = list(d)
    if extra:
        dom.update(extra)
    return dom


def prog_with_inputs(inputs, body):
    return [INPUT_DECL[i] for i in inputs] + list(body)


