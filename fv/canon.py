"""Canonical logical circuit of a blueprint (DESIGN 3.C19): entity configurations with
numbering, positions and descriptions erased, relay/power poles contracted, copper ignored, and
the partition of connectors into circuit networks, canonicalised by colour refinement so that two
isomorphic circuits have the same form (non-isomorphic circuits could only collide, never the
reverse, so the comparison cannot raise a false alarm)."""
from __future__ import annotations

import hashlib
import json

from .sim import Circuit

POLES = ("small-electric-pole", "medium-electric-pole", "big-electric-pole", "substation")


def h(x):
    return hashlib.sha1(json.dumps(x, sort_keys=True, default=str).encode()).hexdigest()[:12]


def config_of(e, keep_position=False):
    c = {k: v for k, v in e.items() if k not in ("entity_number", "position", "player_description")}
    if keep_position:
        c["position"] = e["position"]
    return c


def canonical(bp, user_positions=True):
    """Returns (digest, form).  user_positions: user-placed entities (no description) keep their
    position in the configuration (the program fixed it)."""
    circ = Circuit.__new__(Circuit)
    circ.ents = {e["entity_number"]: e for e in bp.get("entities", [])}
    circ.parent = {}
    for a, ca, b, cb in bp.get("wires", []) or []:
        if ca in (5, 6) or cb in (5, 6):
            continue
        circ._union((a, ca), (b, cb))
    ents = {n: e for n, e in circ.ents.items() if e["name"] not in POLES}
    label = {}
    for n, e in ents.items():
        keep = user_positions and not e.get("player_description")
        label[n] = h(config_of(e, keep))
    nets = {}
    for (n, c) in list(circ.parent):
        if n in ents:
            nets.setdefault(circ._find((n, c)), []).append((n, c))
    # drop networks that connect a single connector to nothing else
    nets = {r: m for r, m in nets.items() if len(m) > 1}
    member = {}
    for r, m in nets.items():
        for (n, c) in m:
            member[(n, c)] = r
    for _ in range(max(4, min(len(ents), 12))):
        new = {}
        for n in ents:
            desc = []
            for c in range(1, 5):
                r = member.get((n, c))
                if r is None:
                    continue
                desc.append((c, sorted((label[m], mc) for (m, mc) in nets[r] if (m, mc) != (n, c))))
            new[n] = h([label[n], desc])
        label = new
    form = {"entities": sorted(label.values()),
            "networks": sorted(sorted((label[n], c) for (n, c) in m) for m in nets.values()),
            "configs": sorted(json.dumps(config_of(e, user_positions and not e.get("player_description")), sort_keys=True)
                              for e in ents.values())}
    return h(form), form


def explain_diff(fa, fb):
    a, b = set(fa["configs"]), set(fb["configs"])
    out = {}
    if a != b:
        out["configs_only_in_A"] = sorted(a - b)[:4]
        out["configs_only_in_B"] = sorted(b - a)[:4]
    elif fa["networks"] != fb["networks"]:
        out["networks"] = f"same entity configurations, different wiring: {len(fa['networks'])} vs {len(fb['networks'])} networks"
    return out
