"""A small corpus of accepted programs of every kind, shared by the layout / configuration checks
(C07, C08, C18, C19)."""

CORPUS = {
    "arith": 'Signal a = ("signal-A", 3);\nSignal b = ("signal-A", 4);\nSignal c = ("signal-C", 5);\nSignal r1 = a * b + c;\nSignal r2 = (a - b) * 2;\n',
    "cond": 'Signal a = ("signal-A", 3);\nSignal c = ("signal-C", 5);\nSignal r = ((a > 2) : c) + ((a <= 2) : a);\nSignal q = (a > 1 && c < 9) : 7;\n',
    "untyped": 'Signal u = 7;\nSignal v = 9;\nSignal a = ("signal-A", 1);\nSignal r = u * v + a;\nSignal s = (u > v) : a;\n',
    "bundle": 'Signal x = ("signal-X", 3);\nSignal y = ("signal-Y", 4);\nBundle bb = {x, y, ("iron-plate", 7)};\nBundle r = bb * 2;\nBundle f = (bb > 3) : bb;\nSignal an = any(bb) > 5;\nSignal s = bb["signal-X"] + 1;\n',
    "merge": 'Signal a = ("iron-plate", 100);\nSignal b = ("iron-plate", 200);\nSignal c = ("iron-plate", 50);\nSignal total = a + b + c;\nSignal twice = total * 2;\n',
    "cell": 'Signal d = ("signal-D", 5);\nSignal t = ("signal-T", 1);\nMemory m: "signal-M";\nm.write(d | "signal-M", when=t > 0);\nSignal o1 = m.read() + 1;\nSignal o2 = m.read() > 2;\n',
    "counter": 'Memory c: "signal-A";\nc.write((c.read() + 1) % 17);\nSignal o = c.read() * 2;\n',
    "chain": 'Memory p: "signal-D";\nSignal s1 = p.read() + 1;\nSignal s2 = s1 * 3;\nSignal s3 = s2 % 17;\np.write(s3);\nSignal out = p.read() | "signal-O";\n',
    "latch-sr": 'Signal x = ("signal-X", 50);\nMemory l: "signal-L";\nl.write(1, set=x < 20, reset=x >= 80);\nSignal o = l.read() * 3;\n',
    "latch-rs-mult": 'Signal s = ("signal-S", 0);\nSignal r = ("signal-R", 0);\nMemory l: "signal-L";\nl.write(100, reset=r > 0, set=s > 0);\nSignal o = l.read() + 1;\n',
    "latch-sig": 'Signal s = ("signal-S", 0);\nSignal r = ("signal-R", 0);\nSignal d = ("signal-D", 9);\nMemory l: "signal-R";\nl.write(d | "signal-R", set=s, reset=r);\nSignal o = l.read();\n',
    "fanout8": 'Signal a = ("signal-A", 3);\nSignal t = a + 1;\n' + "".join(f"Signal r{i} = t * {i + 2};\n" for i in range(8)),
    "entity": 'Signal a = ("signal-A", 3);\nEntity l1 = place("small-lamp", 2, -6);\nl1.enable = a > 2;\nEntity l2 = place("small-lamp", 4, -6);\nl2.enable = a + 1;\nEntity ch = place("steel-chest", 8, -6);\nEntity l3 = place("small-lamp", 10, -6);\nl3.enable = all(ch.output) > 10;\n',
    "far-entities": 'Signal a = ("signal-A", 3);\nEntity l1 = place("small-lamp", 0, -8);\nl1.enable = a > 2;\nEntity l2 = place("small-lamp", 40, -8);\nl2.enable = a > 3;\nEntity ts = place("train-stop", 20, -20, {station: "X"});\nts.enable = a * 2;\n',
    "multi-tile": 'Signal a = ("signal-A", 3);\nEntity as1 = place("assembling-machine-1", 0, -10);\nas1.enable = a > 2;\nEntity pw = place("power-switch", 6, -10);\npw.enable = a > 3;\nEntity tk = place("storage-tank", 10, -10);\nSignal w = tk.output["water"] + a;\n',
    "func-loop": 'Signal a = ("signal-A", 3);\nfunc sc(Signal s, int n) {\n    return s * n + 1;\n}\nfor i in 0..4 {\n    Entity l = place("small-lamp", i * 2, -6);\n    l.enable = sc(a, i) > 4;\n}\nSignal r = sc(a, 5);\n',
}

CORPUS.update({
    # a value fanning out to its own projection and to a combinator that reads both (two wires between one pair)
    "fan-proj": 'Signal x = ("signal-A", 7);\nSignal s = x * 3;\nSignal c = s | "signal-B";\nSignal t = s * c;\nSignal u = t + s;\n',
    "fan-proj-items": 'Signal x = ("iron-plate", 7);\nSignal y = ("copper-plate", 4);\nSignal s = (x + (y | "iron-plate")) * 3;\nSignal c = s | "copper-plate";\nSignal t = s + c;\nSignal u = t * 2;\n',
    # one producer feeding two same-named consumers, one of which feeds the other
    "same-name-chain": 'Signal c = ("signal-X", 7);\nSignal s = (c + 1) | "signal-X";\nSignal a = (s + 1) | "signal-X";\nSignal b = (s * a) | "signal-X";\n',
})

CORPUS.update({
    # comparisons of two same-typed values (operands on different wire colours), plain and with ':'
    "cmp-same-type": 'Signal a = ("signal-A", 5);\nSignal b = ("signal-A", 7);\nSignal lt = a < b;\nSignal x = ("signal-X", 6);\nSignal y = ("signal-X", 2);\nSignal ge = (x >= y) : 9;\n',
})

CORPUS.update({
    # sources that take part in several wire merges with a transitive conflict (balanced loader, three chests)
    "balanced-loader": 'Entity c1 = place("steel-chest", 0, 0);\nEntity c2 = place("steel-chest", 1, 0);\nEntity c3 = place("steel-chest", 2, 0);\nEntity i1 = place("fast-inserter", 0, 1);\nEntity i2 = place("fast-inserter", 1, 1);\nEntity i3 = place("fast-inserter", 2, 1);\nBundle total = {c1.output, c2.output, c3.output};\nBundle neg_avg = total / -3;\nBundle in1 = {neg_avg, c1.output};\nBundle in2 = {neg_avg, c2.output};\nBundle in3 = {neg_avg, c3.output};\ni1.enable = any(in1) < 0;\ni2.enable = any(in2) < 0;\ni3.enable = any(in3) < 0;\n',
    # a scalar that is both a member of a bundle and the scalar operand of its each-arithmetic (two colours, one pair)
    "bundle-member-scalar": 'Signal s = ("signal-S", 3);\nSignal y2 = ("signal-Y", 4);\nBundle b = {s, y2, ("signal-B", 5)};\nBundle m = b * s;\nBundle p = b + s;\n',
    # a program using the bundled library through the documented import form
    "uses-lib": 'import "lib/math.facto";\nSignal x = ("signal-X", -7);\nSignal r = abs(x) + max(x, 3);\nSignal q = clamp(x, 0, 5);\n',
    # a pair for compile histories: the first registers internal labels, the second uses such a label as a variable name
    "hist-memory-named-counter": 'Memory counter: "signal-A";\ncounter.write(counter.read() + 1);\nBundle bundle = {("signal-X", 1), ("signal-Y", 2)};\nSignal o = counter.read() + bundle["signal-X"];\n',
    "hist-variable-named-mem-counter": 'Signal mem_counter = 5;\nSignal y = mem_counter * 3;\nSignal bundle = 7;\nSignal z = bundle + y;\n',
})

# programs whose interest is geometric (used by C08 / C18 / C10, not by the CLI / determinism products)
LAYOUT = {
    # a user entity standing exactly where the relay chain of a long connection wants its first pole
    "relay-obstacle-neg-x": 'Entity chest = place("steel-chest", 0, 0);\nEntity far_lamp = place("small-lamp", -30, 0);\nEntity near_lamp = place("small-lamp", -7, 0);\nBundle items = chest.output;\nfar_lamp.enable = all(items) > 100;\nnear_lamp.enable = all(items) > 5;\n',
    "relay-obstacle-neg-y": 'Entity chest = place("steel-chest", 0, 0);\nEntity far_lamp = place("small-lamp", 0, -30);\nEntity near_lamp = place("small-lamp", 0, -7);\nBundle items = chest.output;\nfar_lamp.enable = all(items) > 100;\nnear_lamp.enable = all(items) > 5;\n',
    "relay-obstacle-pos-x": 'Entity chest = place("steel-chest", 0, 0);\nEntity far_lamp = place("small-lamp", 30, 0);\nEntity near_lamp = place("small-lamp", 8, 0);\nBundle items = chest.output;\nfar_lamp.enable = all(items) > 100;\nnear_lamp.enable = all(items) > 5;\n',
    "relay-obstacle-row": 'Entity chest = place("steel-chest", 0, 0);\nEntity far_lamp = place("small-lamp", -28, -21);\nBundle items = chest.output;\nfar_lamp.enable = all(items) > 100;\nfor i in 3..9 {\n  Entity l = place("small-lamp", 0 - i, 0 - (i * 3) / 4);\n  l.enable = any(items) > i;\n}\n',
    # one source fanning out to sinks of which one is 40 tiles from all the others
    "fanout-far": 'Signal a = ("signal-A", 4);\nSignal lit = (a * 3) > 10;\nEntity l0 = place("small-lamp", 0, 0);\nEntity l1 = place("small-lamp", 2, 0);\nEntity l2 = place("small-lamp", 40, 0);\nl0.enable = lit > 0;\nl1.enable = lit > 0;\nl2.enable = lit > 0;\n',
}

SIZED = {
    "lamps-10": 'Signal a = ("signal-A", 3);\nfor i in 0..10 {\n    Entity l = place("small-lamp", i, -6);\n    l.enable = a > i;\n}\n',
    "combs-60": 'Signal a = ("signal-A", 3);\n' + "".join(f"Signal r{i} = (a + {i}) * {i + 2};\n" for i in range(28)),
    "negative-far": 'Signal a = ("signal-A", 3);\nEntity l1 = place("small-lamp", -30, -40);\nl1.enable = a > 2;\nEntity l2 = place("inserter", 60, 5);\nl2.enable = a > 3;\n',
}
