"""Explorers (DESIGN 2.4): exhaustive valuations of stateless programs, explicit-state BFS over
input histories, orbit exploration."""
from __future__ import annotations

import collections
import copy
import itertools
import json

from . import harness, lang, observe
from .core import sha
from .sim import Circuit, Unmodelled, canon_state, uncanon_state, w, INT_MAX, INT_MIN

DEFAULT_DOMAIN = (0, 1, -1, 2, 7, -8, INT_MAX, INT_MIN)
PLACEHOLDERS_1 = (1009, 1013, 1019, 1021, 1031, 1033)
PLACEHOLDERS_2 = (2003, 2011, 2017, 2027, 2029, 2039)

_sigtype_cache = {}


def signal_type(name):
    if name not in _sigtype_cache:
        from draftsman.data import signals
        try:
            _sigtype_cache[name] = signals.get_signal_types(name)[0]
        except Exception:
            _sigtype_cache[name] = "item"
    return _sigtype_cache[name]


def key_of(name):
    return (signal_type(name), name)


def with_placeholders(stmts, inputs, ph):
    """inputs: list of names (declared by ("decl","Signal",name,("lit",T,("int",_))) or untyped)."""
    out = []
    m = dict(zip(inputs, ph))
    for s in stmts:
        if s[0] == "decl" and s[2] in m:
            e = s[3]
            if e[0] == "lit":
                e = ("lit", e[1], ("int", m[s[2]]))
            elif e[0] == "int":
                e = ("int", m[s[2]])
            else:
                raise ValueError(f"input {s[2]} must be a literal declaration")
            out.append(("decl", s[1], s[2], e))
        else:
            out.append(s)
    return out, m


def mask_structure(bp, input_nums):
    """Blueprint with the input constants masked, for the specialisation guard."""
    ents = []
    for e in bp["entities"]:
        e2 = copy.deepcopy(e)
        if e["entity_number"] in input_nums:
            for sec in e2["control_behavior"]["sections"]["sections"]:
                for f in sec["filters"]:
                    f["count"] = 0
            e2["player_description"] = observe.what(e).split(" (value=")[0]
        ents.append(e2)
    return json.dumps({"e": ents, "w": bp.get("wires")}, sort_keys=True)


def compile_with_inputs(stmts, inputs, opts):
    """Compile under placeholder valuation 1 and 2, check that the circuit is not specialised
    on the input values.  Returns (circuit, Inputs, specialised: bool)."""
    opts = dict(opts)
    declared = opts.pop("declared", None)
    s1, m1 = with_placeholders(stmts, inputs, declared or PLACEHOLDERS_1)
    bp1 = harness.compile_src(lang.show_prog(s1), **opts)
    c1 = Circuit(bp1)
    in1 = observe.Inputs(c1, inputs, m1)
    if not inputs or declared:
        # "declared": the blueprint compiled for THESE declared input values is explored as it is (a player changes
        # the constants after pasting; the property has to hold for the blueprint they got)
        return c1, in1, False
    s2, m2 = with_placeholders(stmts, inputs, PLACEHOLDERS_2)
    bp2 = harness.compile_src(lang.show_prog(s2), **opts)
    c2 = Circuit(bp2)
    in2 = observe.Inputs(c2, inputs, m2)
    if in1.problems or in2.problems:
        return c1, in1, True
    n1 = {v[0] for v in in1.map.values()}
    n2 = {v[0] for v in in2.map.values()}
    spec = mask_structure(bp1, n1) != mask_structure(bp2, n2)
    return c1, in1, spec


def grid(domains, inputs):
    return [dict(zip(inputs, vals)) for vals in itertools.product(*[domains[i] for i in inputs])]


def expect_scalar(circ, sigs, view, ref):
    """Compare one scalar result.  ref: lang.Sig.  Returns (ok, observed_value, note)."""
    want = ref.value
    label = view[2]
    if ref.type is not None:
        k = key_of(ref.type)
        got = sigs.get(k, 0)
        if got != want:
            others = {kk[1]: v for kk, v in sigs.items() if kk != k}
            return False, got, f"on {ref.type}: {got} (others {others})" if others else f"{got}"
        if label is not None and label != ref.type and want != 0:
            pass
        return True, got, ""
    # type left to the compiler: the anchor's own label names the signal
    if label is not None and label not in ("None",):
        cand = [v for kk, v in sigs.items() if kk[1] == label]
        got = cand[0] if cand else 0
    else:
        vals = list(sigs.values())
        if len(vals) > 1:
            return False, None, f"several signals {sigs} and no label"
        got = vals[0] if vals else 0
    return got == want, got, ""


def run_stateless(stmts, inputs, domains, outputs, opts, evaluate=None, compare=None):
    """The stateless explorer.  outputs: names of unconsumed named results.
    evaluate(valuation) -> {name: lang value}; default: run the reference interpreter.
    Returns a result dict for core."""
    try:
        circ, inp, spec = compile_with_inputs(stmts, inputs, opts)
    except harness.Rejected as ex:
        return {"status": "rejected", "detail": str(ex)[:300], "outcome": "rejected:" + ex.kind}
    if inp.problems or spec:
        # cannot override inputs safely: one compile per valuation
        return _run_per_valuation(stmts, inputs, domains, outputs, opts, evaluate,
                                  why=(inp.problems or ["specialised on input values"]))
    views = {o: observe.output_view(circ, o) for o in outputs}
    vals = grid(domains, inputs)
    mism = {}
    obs_all = {o: [] for o in outputs}
    n_eval = 0
    skipped = 0
    incon = 0
    distinct = set()
    ticks = 0
    for v in vals:
        try:
            exp = evaluate(v) if evaluate else ref_outputs(stmts, v, outputs)
        except lang.RefUndefined:
            skipped += 1
            continue
        inp.set(v)
        try:
            st, k = circ.settle(circ.initial_state())
        except Unmodelled:
            incon += 1
            continue
        n_eval += 1
        ticks += (k if k is not None else 0)
        for o in outputs:
            view = views[o]
            e = exp[o]
            if view[0] not in ("anchor", "const"):
                mism.setdefault(o, []).append((v, "unobservable", view[0]))
                continue
            if k is None:
                mism.setdefault(o, []).append((v, "unsettled", None))
                continue
            sigs = observe.read_output(circ, st, view)
            if compare:
                ok, got = compare(o, e, sigs, view)
                note = ""
            elif isinstance(e, lang.Bun):
                got = observe.by_name(sigs)
                ok = got == dict(e)
                note = ""
            else:
                ok, got, note = expect_scalar(circ, sigs, view, e)
            distinct.add((o, json.dumps(got, sort_keys=True, default=str)))
            if not ok:
                want = dict(e) if isinstance(e, lang.Bun) else (e.type, e.value)
                mism.setdefault(o, []).append((v, got if not note else note, want))
    res = {"evaluations": n_eval, "valuations": n_eval, "ticks": ticks, "compiles": 2 if inputs else 1,
           "skipped_ref_undefined": skipped, "nontrivial": len(distinct) > len(outputs),
           "sample": {"src": lang.show_prog(stmts)[:400], "valuations": len(vals)}}
    if mism:
        res["status"] = "fail"
        dg = {o: [(tuple(sorted(v.items())), g) for v, g, _ in lst] for o, lst in mism.items()}
        res["digest"] = sha(dg)
        first = {o: lst[0] for o, lst in mism.items()}
        res["detail"] = {"src": lang.show_prog(stmts), "opts": opts,
                         "first_mismatch": {o: {"inputs": f[0], "observed": f[1], "expected": f[2],
                                                "n_bad": len(mism[o])} for o, f in first.items()}}
        res["outcome"] = "fail"
    elif n_eval == 0:
        res["status"] = "inconclusive"
        res["outcome"] = "inconclusive"
        res["detail"] = f"no valuation evaluated (ref-undefined {skipped}, unmodelled {incon})"
    else:
        res["status"] = "pass"
        res["outcome"] = "pass"
    if incon:
        res["unmodelled_valuations"] = incon
    return res


def ref_outputs(stmts, valuation, outputs):
    env = lang.Env(valuation)
    lang.run(stmts, env)
    return {o: env.vars[o] for o in outputs}


def _run_per_valuation(stmts, inputs, domains, outputs, opts, evaluate, why):
    vals = grid(domains, inputs)
    if len(vals) > 64:
        # reduced grid: all single-input deviations from the first valuation + diagonal
        base = vals[0]
        red = [base]
        for i in inputs:
            for x in domains[i]:
                v = dict(base)
                v[i] = x
                if v not in red:
                    red.append(v)
        vals = red[:64]
    mism = {}
    n_eval = 0
    for v in vals:
        try:
            exp = evaluate(v) if evaluate else ref_outputs(stmts, v, outputs)
        except lang.RefUndefined:
            continue
        s, m = with_placeholders(stmts, inputs, [v[i] for i in inputs])
        try:
            bp = harness.compile_src(lang.show_prog(s), **opts)
        except harness.Rejected as ex:
            continue
        circ = Circuit(bp)
        try:
            st, k = circ.settle(circ.initial_state())
        except Unmodelled:
            continue
        n_eval += 1
        for o in outputs:
            view = observe.output_view(circ, o)
            e = exp[o]
            if view[0] not in ("anchor", "const"):
                mism.setdefault(o, []).append((v, "unobservable", view[0]))
                continue
            if k is None:
                mism.setdefault(o, []).append((v, "unsettled", None))
                continue
            sigs = observe.read_output(circ, st, view)
            if isinstance(e, lang.Bun):
                got = observe.by_name(sigs)
                ok = got == dict(e)
            else:
                ok, got, note = expect_scalar(circ, sigs, view, e)
            if not ok:
                mism.setdefault(o, []).append((v, got, dict(e) if isinstance(e, lang.Bun) else (e.type, e.value)))
    res = {"evaluations": n_eval, "compiles": len(vals), "per_valuation_compile": why,
           "nontrivial": True, "sample": {"src": lang.show_prog(stmts)[:400]}}
    if mism:
        res["status"] = "fail"
        res["digest"] = sha({o: [(tuple(sorted(v.items())), g) for v, g, _ in lst] for o, lst in mism.items()})
        res["detail"] = {"src": lang.show_prog(stmts), "opts": opts, "mode": "per-valuation compile",
                         "first_mismatch": {o: {"inputs": l[0][0], "observed": l[0][1], "expected": l[0][2]}
                                            for o, l in mism.items()}}
    else:
        res["status"] = "pass" if n_eval else "inconclusive"
    return res


# ------------------------------------------------------------------------------------------
# explicit-state search over input histories (DESIGN 2.4 b)
# ------------------------------------------------------------------------------------------
def _observe_named(circ, st, views, ents):
    obs = {}
    for o, view in views.items():
        if view[0] in ("anchor", "const"):
            obs[o] = observe.read_output(circ, st, view)
        else:
            obs[o] = None
    for name, num in ents.items():
        obs[name] = circ.entity_condition(st, num)[0]
    return obs


def _match(circ, views, obs, exp):
    """Compare observation with expectation {name: Sig|Bun|bool}.  Returns list of problems."""
    bad = []
    for o, e in exp.items():
        got = obs.get(o)
        if isinstance(e, bool):
            if got is not e:
                bad.append((o, got, e))
            continue
        if got is None:
            bad.append((o, "unobservable", None))
            continue
        if isinstance(e, lang.Bun):
            g = observe.by_name(got)
            if g != dict(e):
                bad.append((o, g, dict(e)))
        else:
            ok, g, note = expect_scalar(circ, got, views[o], e)
            if not ok:
                bad.append((o, note or g, (e.type, e.value)))
    return bad


def find_entity_at(bp, proto, x, y):
    """Entity of prototype `proto` whose top-left tile is (x, y) (1x1 and larger prototypes)."""
    from . import geometry
    out = []
    for e in bp["entities"]:
        if e["name"] != proto:
            continue
        tx, ty = geometry.top_left_tile(e)
        if (tx, ty) == (x, y):
            out.append(e["entity_number"])
    return out


def run_bfs(stmts, inputs, domains, opts, outputs, ref_init, ref_step, ref_expect,
            entities=None, hold=None, cap=4000, settle_horizon=None):
    """BFS from the power-on state over events "set input x to v".
    ref_step(rs, valuation, event) -> list of acceptable next reference states (hashable)
    ref_expect(rs, valuation) -> {name: Sig | Bun | bool}
    entities: {name: (proto, x, y)} user entities whose circuit condition is observed as bool
    hold(rs_before, rs_after, event) -> True if every tick of this transition must already
        show the (unchanged) expectation (the property's "keeps ... whatever v does")."""
    try:
        circ, inp, spec = compile_with_inputs(stmts, inputs, opts)
    except harness.Rejected as ex:
        return {"status": "rejected", "detail": str(ex)[:300], "outcome": "rejected:" + ex.kind}
    if inp.problems or spec:
        return {"status": "inconclusive", "outcome": "specialised",
                "detail": f"circuit depends on input placeholders: {inp.problems}"}
    views = {o: observe.output_view(circ, o) for o in outputs}
    ents = {}
    for name, (proto, x, y) in (entities or {}).items():
        nums = find_entity_at(circ.bp, proto, x, y)
        if len(nums) != 1:
            return {"status": "fail", "digest": sha(["entity", name, len(nums)]),
                    "detail": {"src": lang.show_prog(stmts), "problem": f"{len(nums)} entities {proto} at {(x, y)}"}}
        ents[name] = nums[0]
    horizon = settle_horizon or (2 * len(circ.combs) + 12)
    val0 = {i: domains[i][0] for i in inputs}
    inp.set(val0)
    bad = []
    n_trans = 0
    n_ticks = 0
    outcomes = set()

    def record(hist, kind, info):
        if len(bad) < 50:
            bad.append((hist, kind, info))

    try:
        st, k = circ.settle(circ.initial_state(), horizon)
    except Unmodelled as ex:
        return {"status": "inconclusive", "outcome": "unmodelled", "detail": str(ex)}
    rs_cands = ref_step(ref_init, val0, None)
    obs = _observe_named(circ, st, views, ents)
    rs0 = None
    if k is None:
        record([], "unsettled-at-power-on", None)
        rs0 = rs_cands[0]
    else:
        probs = None
        for rs in rs_cands:
            probs = _match(circ, views, obs, ref_expect(rs, val0))
            if not probs:
                rs0 = rs
                break
        if rs0 is None:
            record([], "power-on", probs)
            rs0 = rs_cands[0]
    start = (canon_state(st), tuple(sorted(val0.items())), rs0)
    seen = {start: None}
    queue = collections.deque([start])
    capped = False
    maxdepth = 0
    depth = {start: 0}
    while queue:
        node = queue.popleft()
        cs, valt, rs = node
        val = dict(valt)
        for x in inputs:
            for v in domains[x]:
                if val[x] == v:
                    continue
                nv = dict(val)
                nv[x] = v
                inp.set(nv)
                cands = ref_step(rs, nv, (x, v))
                st = uncanon_state(cs)
                must_hold = hold(rs, cands, (x, v)) if hold else False
                settled = None
                tick_bad = None
                try:
                    for t in range(horizon):
                        new = circ.tick(st)
                        n_ticks += 1
                        if new == st:
                            settled = t
                            break
                        st = new
                        if must_hold and tick_bad is None:
                            o2 = _observe_named(circ, st, views, ents)
                            p2 = _match(circ, views, o2, ref_expect(rs, nv))
                            if p2:
                                tick_bad = (t, p2)
                except Unmodelled as ex:
                    return {"status": "inconclusive", "outcome": "unmodelled", "detail": str(ex)}
                n_trans += 1

                def history():
                    h = [(x, v)]
                    p = node
                    while seen[p] is not None:
                        h.append(seen[p][1])
                        p = seen[p][0]
                    return list(reversed(h))
                if settled is None:
                    record(history(), "unsettled", None)
                    continue
                if tick_bad is not None:
                    record(history(), "disturbed-during-hold", tick_bad)
                obs = _observe_named(circ, st, views, ents)
                chosen = None
                probs = None
                for c in cands:
                    probs = _match(circ, views, obs, ref_expect(c, nv))
                    if not probs:
                        chosen = c
                        break
                if chosen is None:
                    record(history(), "settled-state", probs)
                    chosen = cands[0]
                outcomes.add(json.dumps({o: (observe.by_name(g) if isinstance(g, dict) else g)
                                         for o, g in obs.items()}, sort_keys=True, default=str))
                nxt = (canon_state(st), tuple(sorted(nv.items())), chosen)
                if nxt not in seen:
                    if len(seen) >= cap:
                        capped = True
                        continue
                    seen[nxt] = (node, (x, v))
                    depth[nxt] = depth[node] + 1
                    maxdepth = max(maxdepth, depth[nxt])
                    queue.append(nxt)
    res = {"evaluations": n_trans, "states": len(seen), "transitions": n_trans, "ticks": n_ticks,
           "traces": n_trans, "compiles": 2, "max_depth": maxdepth, "capped": capped,
           "nontrivial": len(outcomes) > 1,
           "sample": {"src": lang.show_prog(stmts)[:500], "states": len(seen), "transitions": n_trans,
                      "distinct_observations": len(outcomes)}}
    if bad:
        bad.sort(key=lambda b: len(b[0]))
        res["status"] = "fail"
        res["digest"] = sha([(h, kind, str(info)) for h, kind, info in bad[:20]])
        res["detail"] = {"src": lang.show_prog(stmts), "opts": opts,
                         "shortest_history": bad[0][0], "kind": bad[0][1], "info": str(bad[0][2])[:500],
                         "n_bad_transitions": len(bad)}
        res["outcome"] = "fail"
    else:
        res["status"] = "pass"
        res["outcome"] = "pass"
    return res


# ------------------------------------------------------------------------------------------
# orbit exploration of free-running circuits (DESIGN 2.4 c)
# ------------------------------------------------------------------------------------------
def find_computing(bp, name):
    """Combinators whose description says they compute `name` (not anchors)."""
    out = []
    for e in bp["entities"]:
        wt = observe.what(e)
        if e["name"] in ("arithmetic-combinator", "decider-combinator") and wt.startswith(f"{name} ("):
            out.append(e["entity_number"])
    return out


def run_orbit(stmts, inputs, valuations, opts, readers, cellkey, f, max_latency, cap=4096):
    """readers: {name: "input"|"anchor"}: where the cell is observed (input side of the combinator
    computing `name`, or the anchor of a bare read).  f(x, valuation) -> next value (reference).
    Checks: exists L in 1..max_latency with r(t+L) = f(r(t)) for every explored t, per reader."""
    try:
        circ, inp, spec = compile_with_inputs(stmts, inputs, opts)
    except harness.Rejected as ex:
        return {"status": "rejected", "detail": str(ex)[:300], "outcome": "rejected:" + ex.kind}
    if inp.problems or spec:
        return {"status": "inconclusive", "outcome": "specialised", "detail": str(inp.problems)}
    points = {}
    for name, how in readers.items():
        if how == "anchor":
            v = observe.output_view(circ, name)
            if v[0] != "anchor":
                return {"status": "fail", "digest": sha(["noanchor", name]),
                        "detail": {"src": lang.show_prog(stmts), "problem": f"no anchor for bare read {name}"}}
            points[name] = (v[1], (1, 2))
        else:
            nums = find_computing(circ.bp, name)
            if len(nums) != 1:
                return {"status": "fail", "digest": sha(["noreader", name, len(nums)]),
                        "detail": {"src": lang.show_prog(stmts), "problem": f"{len(nums)} combinators compute {name}"}}
            points[name] = (nums[0], (1, 2))
    bad = []
    total_ticks = 0
    closed = 0
    lat = {}
    distinct = set()
    for val in valuations:
        inp.set(val)
        st = circ.initial_state()
        seen = {}
        traces = {n: [] for n in points}
        t = 0
        try:
            while t < cap:
                cs = canon_state(st)
                if cs in seen:
                    closed += 1
                    break
                seen[cs] = t
                nets = circ.networks(st)
                for n, (num, conns) in points.items():
                    traces[n].append(circ.read(nets, num, conns).get(cellkey, 0))
                st = circ.tick(st)
                t += 1
            # extend the trace by max_latency ticks beyond closure so every t has its successor
            for _ in range(max_latency + 1):
                nets = circ.networks(st)
                for n, (num, conns) in points.items():
                    traces[n].append(circ.read(nets, num, conns).get(cellkey, 0))
                st = circ.tick(st)
        except Unmodelled as ex:
            return {"status": "inconclusive", "outcome": "unmodelled", "detail": str(ex)}
        total_ticks += t
        for n, tr in traces.items():
            distinct.update(tr[:50])
            okL = None
            why = None
            for L in range(1, max_latency + 1):
                ok = True
                for i in range(len(tr) - L):
                    try:
                        want = f(tr[i], val)
                    except lang.RefUndefined:
                        continue
                    if tr[i + L] != want:
                        ok = False
                        if why is None or L == 1:
                            why = (L, i, tr[i], tr[i + L], want)
                        break
                if ok:
                    okL = L
                    break
            if okL is None:
                bad.append((tuple(sorted(val.items())), n, tr[:12], why))
            else:
                lat.setdefault(n, set()).add(okL)
    res = {"evaluations": len(valuations), "ticks": total_ticks, "states": total_ticks, "transitions": total_ticks,
           "traces": len(valuations) * len(points), "orbits_closed": closed, "orbits": len(valuations),
           "compiles": 2, "nontrivial": len(distinct) > 2,
           "sample": {"src": lang.show_prog(stmts)[:500], "latency": {k: sorted(v) for k, v in lat.items()},
                      "ticks": total_ticks}}
    if bad:
        res["status"] = "fail"
        res["digest"] = sha([(b[0], b[1], b[2]) for b in bad])
        res["detail"] = {"src": lang.show_prog(stmts), "opts": opts, "valuation": bad[0][0], "reader": bad[0][1],
                         "trace_head": bad[0][2], "no_latency_fits(L,t,r(t),r(t+L),f(r(t)))": bad[0][3],
                         "n_bad": len(bad)}
        res["outcome"] = "fail"
    else:
        res["status"] = "pass"
        res["outcome"] = "pass:" + json.dumps({k: sorted(v) for k, v in lat.items()})
    return res


# ------------------------------------------------------------------------------------------
# differential oracle: two builds must be observationally equal (DESIGN 2.4 a + e)
# ------------------------------------------------------------------------------------------
POLES = ("small-electric-pole", "medium-electric-pole", "big-electric-pole", "substation")
COMPILER_ENTS = ("arithmetic-combinator", "decider-combinator", "constant-combinator")


def user_entities(bp):
    """Entities the program placed: everything that carries no compiler description and is not a
    pole.  Returns {(proto, tile_x, tile_y, index): entity_number}; index separates duplicates."""
    from . import geometry
    out = {}
    cnt = {}
    for e in sorted(bp["entities"], key=lambda e: e["entity_number"]):
        if e.get("player_description") or e["name"] in POLES:
            continue
        tx, ty = geometry.top_left_tile(e)
        k = (e["name"], tx, ty)
        i = cnt.get(k, 0)
        cnt[k] = i + 1
        out[k + (i,)] = e["entity_number"]
    return out


def own_value(circ, st, view):
    sigs = observe.read_output(circ, st, view)
    if sigs is None:
        return "unobservable"
    label = view[2]
    if label:
        c = [v for k, v in sigs.items() if k[1] == label]
        return c[0] if c else 0
    vals = list(sigs.values())
    if len(vals) > 1:
        return "ambiguous:" + json.dumps(observe.by_name(sigs), sort_keys=True)
    return vals[0] if vals else 0


def _prep(side):
    circ, inp, spec = compile_with_inputs(side["stmts"], side["inputs"], side["opts"])
    return circ, inp, (inp.problems or (["specialised"] if spec else []))


def run_differential(A, B, domains, pairs, mode="value", compare_entities=True, tolerate_reject="both"):
    """A, B: {"stmts", "inputs", "opts", "fixed": {input: value}}.  pairs: [(nameA, nameB)].
    Every valuation of the free inputs (domains) is applied to both builds; named outputs (and
    user entities' conditions, matched by prototype+tile) must agree."""
    rej = {}
    built = {}
    for tag, side in (("A", A), ("B", B)):
        try:
            built[tag] = _prep(side)
        except harness.Rejected as ex:
            rej[tag] = ex
    srcs = {"A": lang.show_prog(A["stmts"]), "B": lang.show_prog(B["stmts"])}
    if rej:
        if len(rej) == 2:
            return {"status": "rejected", "outcome": "both-rejected", "detail": str(rej["A"])[:200]}
        tag = list(rej)[0]
        return {"status": "fail", "digest": sha(["one-rejected", tag, rej[tag].kind]), "outcome": "one-rejected",
                "detail": {"problem": f"only build {tag} is rejected: {str(rej[tag])[:300]}", "srcA": srcs["A"],
                           "srcB": srcs["B"], "optsA": A["opts"], "optsB": B["opts"]}}
    (ca, ia, pa), (cb, ib, pb) = built["A"], built["B"]
    if bool(pa) != bool(pb) and ("specialised" in pa or "specialised" in pb):
        # exactly one build depends on the declared VALUES of the inputs (it folded an input): the two builds
        # cannot be observationally equal for all input values
        who = "A" if pa else "B"
        return {"status": "fail", "digest": sha(["one-specialised", who]), "outcome": "one-specialised",
                "detail": {"problem": f"build {who} is specialised on the declared input values (an input was folded), the other is not",
                           "srcA": srcs["A"], "srcB": srcs["B"], "optsA": A["opts"], "optsB": B["opts"]}}
    if pa or pb:
        return {"status": "inconclusive", "outcome": "specialised", "detail": f"{pa} {pb}"}
    va = {a: observe.output_view(ca, a) for a, _ in pairs}
    vb = {b: observe.output_view(cb, b) for _, b in pairs}
    ea, eb = user_entities(ca.bp), user_entities(cb.bp)
    mism = []
    if compare_entities == "P":      # B is a sub-program of A: every entity of B must be in A
        if set(eb) - set(ea):
            mism.append(("entities", None, [], sorted(set(eb) - set(ea))))
    elif compare_entities and set(ea) != set(eb):
        mism.append(("entities", None, sorted(set(ea) - set(eb)), sorted(set(eb) - set(ea))))
    free = [i for i in domains]
    vals = grid(domains, free)
    n = 0
    distinct = set()
    for v in vals:
        for side, inp in ((A, ia), (B, ib)):
            full = dict(side.get("fixed") or {})
            full.update({k: x for k, x in v.items() if k in side["inputs"]})
            inp.set(full)
        try:
            sa, ka = ca.settle(ca.initial_state())
            sb, kb = cb.settle(cb.initial_state())
        except Unmodelled:
            continue
        n += 1
        if (ka is None) != (kb is None):
            mism.append(("settle", v, ka, kb))
            continue
        if ka is None:
            continue
        for a, b in pairs:
            if mode == "signals":
                oa = observe.read_output(ca, sa, va[a])
                ob = observe.read_output(cb, sb, vb[b])
                oa = observe.by_name(oa) if oa is not None else "unobservable"
                ob = observe.by_name(ob) if ob is not None else "unobservable"
            else:
                oa, ob = own_value(ca, sa, va[a]), own_value(cb, sb, vb[b])
            distinct.add((a, json.dumps(oa, sort_keys=True)))
            if oa != ob:
                mism.append((a, v, oa, ob))
        if compare_entities:
            for k in set(ea) & set(eb):
                xa = ca.entity_condition(sa, ea[k])
                xb = cb.entity_condition(sb, eb[k])
                distinct.add((k, xa[0]))
                if xa[0] != xb[0]:
                    mism.append((list(k), v, xa, xb))
    res = {"evaluations": n, "valuations": n, "compiles": 4, "nontrivial": len(distinct) > len(pairs),
           "sample": {"srcA": srcs["A"][:300], "srcB": srcs["B"][:300], "valuations": len(vals)}}
    if mism:
        res["status"] = "fail"
        res["digest"] = sha([(m[0], m[1], m[2], m[3]) for m in mism[:40]])
        m = mism[0]
        res["detail"] = {"srcA": srcs["A"], "srcB": srcs["B"], "optsA": A["opts"], "optsB": B["opts"],
                         "first_mismatch": {"what": m[0], "inputs": m[1], "A": m[2], "B": m[3]}, "n_bad": len(mism)}
        res["outcome"] = "fail"
    elif n == 0:
        res["status"] = "inconclusive"
        res["outcome"] = "inconclusive"
    else:
        res["status"] = "pass"
        res["outcome"] = "pass"
    return res


def run_product_bfs(A, B, inputs, domains, outputs, entities=None, cap=3000, pairs=None, subset=False):
    """Lock-step BFS over the product of two circuits (two builds of one source): after every
    event both are settled and their named outputs / entity conditions must be equal."""
    try:
        ca, ia, sa_ = compile_with_inputs(A["stmts"], A.get("inputs", inputs), A["opts"])
        cb, ib, sb_ = compile_with_inputs(B["stmts"], B.get("inputs", inputs), B["opts"])
    except harness.Rejected as ex:
        return {"status": "rejected", "detail": str(ex)[:300], "outcome": "rejected"}
    if ia.problems or ib.problems or sa_ or sb_:
        return {"status": "inconclusive", "outcome": "specialised"}
    va = {o: observe.output_view(ca, o) for o in outputs}
    vb = {o: observe.output_view(cb, o) for o in outputs}
    ea, eb = user_entities(ca.bp), user_entities(cb.bp)
    bad = []
    if (set(eb) - set(ea)) if subset else (set(ea) != set(eb)):
        bad.append(([], "entities", (sorted(set(ea) - set(eb)), sorted(set(eb) - set(ea)))))
    common = sorted(set(ea) & set(eb))
    ha, hb = 2 * len(ca.combs) + 12, 2 * len(cb.combs) + 12
    val0 = {i: domains[i][0] for i in inputs}

    def obs(c, st, views, emap):
        o = {n: own_value(c, st, v) for n, v in views.items()}
        for k in common:
            o[str(k)] = c.entity_condition(st, emap[k])[0]
        return o
    ia.set(val0, partial=True)
    ib.set(val0, partial=True)
    try:
        sa, ka = ca.settle(ca.initial_state(), ha)
        sb, kb = cb.settle(cb.initial_state(), hb)
    except Unmodelled as ex:
        return {"status": "inconclusive", "outcome": "unmodelled", "detail": str(ex)}
    if ka is None or kb is None:
        bad.append(([], "unsettled-at-power-on", (ka, kb)))
    elif obs(ca, sa, va, ea) != obs(cb, sb, vb, eb):
        bad.append(([], "power-on", (obs(ca, sa, va, ea), obs(cb, sb, vb, eb))))
    start = (canon_state(sa), canon_state(sb), tuple(sorted(val0.items())))
    seen = {start: None}
    queue = collections.deque([start])
    n_trans = 0
    outcomes = set()
    capped = False
    while queue:
        node = queue.popleft()
        csa, csb, valt = node
        val = dict(valt)
        for x in inputs:
            for v in domains[x]:
                if val[x] == v:
                    continue
                nv = dict(val)
                nv[x] = v
                ia.set(nv, partial=True)
                ib.set(nv, partial=True)
                try:
                    sa, ka = ca.settle(uncanon_state(csa), ha)
                    sb, kb = cb.settle(uncanon_state(csb), hb)
                except Unmodelled as ex:
                    return {"status": "inconclusive", "outcome": "unmodelled", "detail": str(ex)}
                n_trans += 1

                def history():
                    h = [(x, v)]
                    p = node
                    while seen[p] is not None:
                        h.append(seen[p][1])
                        p = seen[p][0]
                    return list(reversed(h))
                if ka is None or kb is None:
                    if (ka is None) != (kb is None) and len(bad) < 30:
                        bad.append((history(), "unsettled", (ka, kb)))
                    continue
                oa, ob = obs(ca, sa, va, ea), obs(cb, sb, vb, eb)
                outcomes.add(json.dumps(oa, sort_keys=True, default=str))
                if oa != ob and len(bad) < 30:
                    bad.append((history(), "outputs-differ", (oa, ob)))
                nxt = (canon_state(sa), canon_state(sb), tuple(sorted(nv.items())))
                if nxt not in seen:
                    if len(seen) >= cap:
                        capped = True
                        continue
                    seen[nxt] = (node, (x, v))
                    queue.append(nxt)
    res = {"evaluations": n_trans, "states": len(seen), "transitions": n_trans, "traces": n_trans,
           "compiles": 4, "capped": capped, "nontrivial": len(outcomes) > 1,
           "sample": {"srcA": lang.show_prog(A["stmts"])[:400], "states": len(seen), "transitions": n_trans}}
    if bad:
        bad.sort(key=lambda b: len(b[0]))
        res["status"] = "fail"
        res["digest"] = sha([(h, k, str(i)) for h, k, i in bad[:20]])
        res["detail"] = {"srcA": lang.show_prog(A["stmts"]), "optsA": A["opts"], "optsB": B["opts"],
                         "shortest_history": bad[0][0], "kind": bad[0][1], "A_vs_B": str(bad[0][2])[:600]}
        res["outcome"] = "fail"
    else:
        res["status"] = "pass"
        res["outcome"] = "pass"
    return res
