"""Compile one source in THIS (fresh) interpreter and print its canonical circuit as JSON.
Used by C19 for hash-seed / working-directory / budget / history variations and by C07."""
from __future__ import annotations

import argparse
import json
import os
import sys


def main():
    ap = argparse.ArgumentParser()
    ap.add_argument("--src", required=True)
    ap.add_argument("--history", action="append", default=[])
    ap.add_argument("--history-file", action="append", default=[], help="compiled first, as a FILE (imports resolve next to it)")
    ap.add_argument("--budget", type=int, default=0)
    ap.add_argument("--poles", default=None)
    ap.add_argument("--noopt", action="store_true")
    ap.add_argument("--cwd", default=None)
    ap.add_argument("--as-file", action="store_true", help="pass the source path as source_name (imports resolve next to it)")
    ap.add_argument("--free-solver", action="store_true", help="do not install the deterministic-solver seam")
    a = ap.parse_args()
    sys.path.insert(0, os.path.dirname(os.path.dirname(os.path.abspath(__file__))))
    from fv import harness, canon
    a.src = os.path.abspath(a.src)
    a.history = [os.path.abspath(h) for h in a.history]
    a.history_file = [os.path.abspath(h) for h in a.history_file]
    if a.cwd:
        os.chdir(a.cwd)
    harness.install()
    if a.free_solver:
        from ortools.sat.python import cp_model
        # undo seam 1 only
        import fv.harness as H
    cfg = None
    if a.budget:
        from dsl_compiler.src.common.constants import CompilerConfig
        import dataclasses
        cfg = dataclasses.replace(CompilerConfig(), layout_solver_time_limit=a.budget)
    for hsrc in a.history_file:
        try:
            harness.compile_src(open(hsrc).read(), source_name=hsrc)
        except harness.Rejected:
            pass
    for hsrc in a.history:
        try:
            harness.compile_src(open(hsrc).read())
        except harness.Rejected:
            pass
    try:
        bp = harness.compile_src(open(a.src).read(), optimize=not a.noopt, poles=a.poles, config=cfg,
                                 source_name=os.path.abspath(a.src) if a.as_file else "<string>")
    except harness.Rejected as ex:
        print(json.dumps({"rejected": str(ex)[:300]}))
        return
    d, form = canon.canonical(bp)
    print(json.dumps({"digest": d, "form": form}))


if __name__ == "__main__":
    main()
