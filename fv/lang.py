"""Our own abstract syntax for Facto programs, a printer that uses only the *documented*
precedence table, and a boring reference interpreter (DESIGN 2.3).

Expressions are tuples:
  ("int", k)                      integer literal
  ("var", name)
  ("lit", type, valexpr)          typed literal ("type", value); type is a str or ("typeof", name)
  ("bin", op, l, r)               op in ARITH | CMP | LOGIC
  ("un", op, e)                   op in "-", "!", "+"
  ("proj", e, type)               e | "type"      (type: str or ("typeof", name))
  ("cond", c, v)                  c : v
  ("call", fname, [args])
  ("read", mem)
  ("bundle", [items])             { item, ... }   items are expressions (signals or bundles)
  ("sel", b, "type")              b["type"]
  ("any", b) / ("all", b)
  ("raw", text, fn)               escape hatch: printed verbatim, evaluated by fn(env)
Statements are tuples:
  ("decl", kind, name, expr)      kind in "Signal" | "int" | "Bundle"
  ("mem", name, type_or_None)
  ("write", mem, v, when_or_None)
  ("latch", mem, v, set, reset, order)      order "sr" | "rs"
  ("place", name, proto, xexpr, yexpr, props_or_None)
  ("prop", ent, prop, expr)
  ("func", name, [(ptype, pname)], [stmts], ret_expr_or_None)
  ("for", var, iterator, [stmts])   iterator ("range", a, b, step_or_None) | ("list", [k...])
  ("expr", expr)
  ("text", source_text)            verbatim
"""
from __future__ import annotations

from .sim import w, arith_op, Unmodelled

ARITH = ("+", "-", "*", "/", "%", "**", "<<", ">>", "AND", "OR", "XOR")
CMP = ("==", "!=", "<", "<=", ">", ">=")
LOGIC = ("&&", "||", "and", "or")

# documented precedence, larger binds tighter
PREC = {}
for _ops, _p in ((("||", "or"), 1), (("&&", "and"), 2), ((":",), 3), (CMP, 4), (("|",), 5),
                 (("OR",), 6), (("XOR",), 7), (("AND",), 8), (("<<", ">>"), 9), (("+", "-"), 10),
                 (("*", "/", "%"), 11), (("**",), 12)):
    for _o in _ops:
        PREC[_o] = _p
P_UNARY = 13
P_ATOM = 14


def I(k):
    return ("int", k)


def V(n):
    return ("var", n)


def B(op, l, r):
    return ("bin", op, l, r)


def tshow(t):
    if isinstance(t, tuple) and t[0] == "typeof":
        return f"{t[1]}.type"
    return f'"{t}"'


def doc_parse(x, op1, y, op2, z):
    """The documented parse of `x op1 y op2 z` (all binary operators left-associative except **)."""
    p1, p2 = PREC[op1], PREC[op2]
    if p1 > p2 or (p1 == p2 and op1 != "**"):
        return ("bin", op2, ("bin", op1, x, y), z)
    return ("bin", op1, x, ("bin", op2, y, z))


def prec_of(e):
    k = e[0]
    if k == "bin":
        return PREC[e[1]]
    if k == "un":
        return P_UNARY
    if k == "proj":
        return PREC["|"]
    if k == "cond":
        return PREC[":"]
    return P_ATOM


def show(e, parent=0, right=False):
    """Print with parentheses only where the documented table needs them."""
    k = e[0]
    if k == "int":
        s = str(e[1])
        return s
    if k == "var":
        return e[1]
    if k == "lit":
        return f"({tshow(e[1])}, {show(e[2])})"
    if k == "read":
        return f"{e[1]}.read()"
    if k == "call":
        return f"{e[1]}({', '.join(show(a) for a in e[2])})"
    if k == "bundle":
        return "{" + ", ".join(show(a) for a in e[1]) + "}" if e[1] else "{}"
    if k == "sel":
        inner = show(e[1], P_ATOM)
        return f'{inner}["{e[2]}"]'
    if k in ("any", "all"):
        return f"{k}({show(e[1])})"
    if k == "output":
        return f"{e[1]}.output"
    if k == "raw":
        return e[1]
    if k == "paren":
        return "(" + show(e[1]) + ")"
    if k == "flat":   # x op1 y op2 z printed WITHOUT parentheses; meaning = documented parse
        s = f"{show(e[1], P_ATOM)} {e[2]} {show(e[3], P_ATOM)} {e[4]} {show(e[5], P_ATOM)}"
        return "(" + s + ")" if parent > 0 else s
    p = prec_of(e)
    if k == "bin":
        op = e[1]
        if op == "**":  # right-associative
            s = f"{show(e[2], p + 1)} ** {show(e[3], p)}"
        elif op in CMP:
            # comparisons do not chain in the documentation: parenthesise nested comparisons
            s = f"{show(e[2], p + 1)} {op} {show(e[3], p + 1)}"
        else:
            s = f"{show(e[2], p)} {op} {show(e[3], p + 1)}"
    elif k == "un":
        s = f"{e[1]}{show(e[2], P_UNARY)}"
    elif k == "proj":
        s = f"{show(e[1], p)} | {tshow(e[2])}"
    elif k == "cond":
        # left of ':' is a comparison-level expression, right is a primary
        s = f"{show(e[1], PREC[':'] + 1)} : {show(e[2], P_ATOM)}"
    else:
        raise ValueError(e)
    if p < parent:
        return "(" + s + ")"
    return s


def show_stmt(s, ind=""):
    k = s[0]
    if k == "decl":
        return f"{ind}{s[1]} {s[2]} = {show(s[3])};"
    if k == "mem":
        return f"{ind}Memory {s[1]}" + (f': "{s[2]}"' if s[2] else "") + ";"
    if k == "write":
        if s[3] is None:
            return f"{ind}{s[1]}.write({show(s[2])});"
        return f"{ind}{s[1]}.write({show(s[2])}, when={show(s[3])});"
    if k == "latch":
        if s[5] == "sr":
            return f"{ind}{s[1]}.write({show(s[2])}, set={show(s[3])}, reset={show(s[4])});"
        return f"{ind}{s[1]}.write({show(s[2])}, reset={show(s[4])}, set={show(s[3])});"
    if k == "place":
        props = ""
        if s[5]:
            props = ", {" + ", ".join(f"{a}: {b}" for a, b in s[5]) + "}"
        lhs = f"Entity {s[1]} = " if s[1] else ""
        return f'{ind}{lhs}place("{s[2]}", {show(s[3])}, {show(s[4])}{props});'
    if k == "prop":
        return f"{ind}{s[1]}.{s[2]} = {show(s[3])};"
    if k == "replace":     # re-binding an existing Entity variable: name = place(...)
        return f'{ind}{s[1]} = place("{s[2]}", {show(s[3])}, {show(s[4])});'
    if k == "func":
        ps = ", ".join(f"{t} {n}" for t, n in s[2])
        body = "\n".join(show_stmt(b, ind + "    ") for b in s[3])
        ret = f"\n{ind}    return {show(s[4])};" if s[4] is not None else ""
        return f"{ind}func {s[1]}({ps}) {{\n{body}{ret}\n{ind}}}"
    if k == "for":
        it = s[2]
        if it[0] == "range":
            its = f"{it[1]}..{it[2]}" + (f" step {it[3]}" if it[3] is not None else "")
        else:
            its = "[" + ", ".join(str(x) for x in it[1]) + "]"
        body = "\n".join(show_stmt(b, ind + "    ") for b in s[3])
        return f"{ind}for {s[1]} in {its} {{\n{body}\n{ind}}}"
    if k == "expr":
        return f"{ind}{show(s[1])};"
    if k == "text":
        return "\n".join(ind + ln for ln in s[1].splitlines())
    raise ValueError(s)


def show_prog(stmts):
    return "\n".join(show_stmt(s) for s in stmts) + "\n"


# ------------------------------------------------------------------------------------------
# reference interpreter
# ------------------------------------------------------------------------------------------
def VIRTUAL(name):
    return name.startswith("signal-")


class RefUndefined(Exception):
    """The reference does not define this case (e.g. shift count outside 0..31)."""


class Int(int):
    """compile-time integer"""


class BoolInt(Int):
    """result of a comparison / logical operation on two integers: documented to be carried on a
    compiler-chosen virtual signal, so it does not pass a type on to a Signal operand"""


class Sig:
    """a signal value; type None = the language leaves the name to the compiler / unspecified"""
    __slots__ = ("type", "value")

    def __init__(self, type, value):
        self.type = type
        self.value = w(value)

    def __repr__(self):
        return f"Sig({self.type},{self.value})"


class Bun(dict):
    """bundle: {type_name: value}; zero members are absent"""


def ref_arith(op, a, b):
    o = "^" if op == "**" else op
    try:
        return arith_op(o, a, b)
    except Unmodelled as ex:
        raise RefUndefined(str(ex))


def ref_cmp(op, a, b):
    return {"==": a == b, "!=": a != b, "<": a < b, "<=": a <= b, ">": a > b, ">=": a >= b}[op]


def val(x):
    return int(x) if isinstance(x, Int) else x.value


class Env:
    def __init__(self, valuation=None):
        self.vars = {}
        self.funcs = {}
        self.valuation = valuation or {}
        self.mem_read = None      # callable name -> Sig (for stateful references)
        self.entity_output = None  # callable entname -> Bun


def ev(e, env: Env):
    k = e[0]
    if k == "int":
        return Int(w(e[1]))
    if k == "var":
        return env.vars[e[1]]
    if k == "paren":
        return ev(e[1], env)
    if k == "flat":
        return ev(doc_parse(e[1], e[2], e[3], e[4], e[5]), env)
    if k == "lit":
        t = e[1]
        if isinstance(t, tuple):
            t = env.vars[t[1]].type
        v = ev(e[2], env)
        return Sig(t, val(v))
    if k == "proj":
        t = e[2]
        if isinstance(t, tuple):
            t = env.vars[t[1]].type
        v = ev(e[1], env)
        if isinstance(v, Bun):
            raise RefUndefined("projection of a bundle")
        return Sig(t, val(v))
    if k == "un":
        v = ev(e[2], env)
        if isinstance(v, Bun):
            raise RefUndefined("unary on bundle")
        op = e[1]
        if op == "+":
            return v
        if op == "-":
            r = w(-val(v))
        else:
            r = 1 if val(v) == 0 else 0
        if isinstance(v, Int):
            return BoolInt(r) if op == "!" else Int(r)
        return Sig(v.type if op == "-" else None, r)
    if k == "bin":
        op = e[1]
        l = ev(e[2], env)
        r = ev(e[3], env)
        if isinstance(l, (Bun, Quant, BunCmp)) or isinstance(r, (Bun, Quant, BunCmp)):
            return ev_bundle_bin(op, l, r)
        a, b = val(l), val(r)
        if op in ARITH:
            res = ref_arith(op, a, b)
        elif op in CMP:
            res = 1 if ref_cmp(op, a, b) else 0
        elif op in ("&&", "and"):
            res = 1 if (a != 0 and b != 0) else 0
        else:
            res = 1 if (a != 0 or b != 0) else 0
        if isinstance(l, Int) and isinstance(r, Int):
            return Int(res) if op in ARITH else BoolInt(res)
        if op in ARITH:
            t = l.type if isinstance(l, Sig) else (None if isinstance(l, BoolInt) else r.type)
        elif op in CMP:
            # documented: "inherits the signal type from the left operand"; the compiler keeps
            # boolean results on virtual channels on purpose, so the name is only asserted when
            # the left operand is a virtual signal (see DESIGN 5, readings)
            t = l.type if (isinstance(l, Sig) and l.type and VIRTUAL(l.type)) else None
        else:
            t = None
        return Sig(t, res)
    if k == "cond":
        c = ev(e[1], env)
        v = ev(e[2], env)
        if isinstance(c, BunCmp):
            return ev_bundle_filter(c, v)
        cv = val(c)
        if isinstance(v, Bun):
            return Bun(v) if cv != 0 else Bun()
        if isinstance(v, Int):
            return Sig(None, int(v) if cv != 0 else 0)
        return Sig(v.type, v.value if cv != 0 else 0)
    if k == "read":
        return env.mem_read(e[1])
    if k == "call":
        return call(e[1], e[2], env)
    if k == "bundle":
        out = Bun()
        for it in e[1]:
            v = ev(it, env)
            if isinstance(v, Bun):
                for t, x in v.items():
                    out[t] = w(out.get(t, 0) + x)
            elif isinstance(v, Sig):
                if v.type is None:
                    raise RefUndefined("untyped member in bundle")
                out[v.type] = w(out.get(v.type, 0) + v.value)
            else:
                raise RefUndefined("int in bundle")
        return Bun({t: x for t, x in out.items() if x != 0})
    if k == "sel":
        b = ev(e[1], env)
        return Sig(e[2], b.get(e[2], 0))
    if k in ("any", "all"):
        return Quant(k, ev(e[1], env))
    if k == "output":
        return Bun(env.entity_output(e[1]))
    if k == "raw":
        return e[2](env)
    raise ValueError(e)


class Quant:
    def __init__(self, kind, bun):
        self.kind = kind
        self.bun = bun


class BunCmp:
    """(bundle CMP scalar) awaiting ':'"""

    def __init__(self, bun, op, rhs):
        self.bun, self.op, self.rhs = bun, op, rhs


def ev_bundle_bin(op, l, r):
    if isinstance(l, Quant):
        if op not in CMP:
            raise RefUndefined("any/all outside comparison")
        b = val(r)
        vals = list(l.bun.values())
        res = any(ref_cmp(op, v, b) for v in vals) if l.kind == "any" else all(ref_cmp(op, v, b) for v in vals)
        return Sig(None, 1 if res else 0)
    if isinstance(l, Bun) and not isinstance(r, (Bun, Quant)):
        b = val(r)
        if op in ARITH:
            out = Bun()
            for t, v in l.items():
                x = ref_arith(op, v, b)
                if x != 0:
                    out[t] = x
            return out
        if op in CMP:
            return BunCmp(l, op, b)
    raise RefUndefined(f"bundle operation {op}")


def ev_bundle_filter(c: BunCmp, v):
    out = Bun()
    for t, x in c.bun.items():
        if ref_cmp(c.op, x, c.rhs):
            if isinstance(v, Bun):
                y = v.get(t, 0)
            elif isinstance(v, Int):
                y = int(v)
            else:
                raise RefUndefined("bundle filter with signal output")
            if y != 0:
                out[t] = y
    return out


def call(fname, args, env: Env):
    params, body, ret = env.funcs[fname]
    saved = env.vars
    local = dict(saved)
    for (pt, pn), a in zip(params, args):
        v = ev(a, env)
        if pt == "int" and isinstance(v, Sig):
            pass  # Signal coerced to int parameter: stays a run-time value
        if pt == "Signal" and isinstance(v, Int):
            v = Sig(None, int(v))
        local[pn] = v
    env.vars = local
    try:
        run(body, env)
        return ev(ret, env) if ret is not None else None
    finally:
        env.vars = saved


def loop_values(it, env):
    if it[0] == "list":
        return list(it[1])

    def bound(x):
        return int(env.vars[x]) if isinstance(x, str) else x
    a, b = bound(it[1]), bound(it[2])
    s = bound(it[3]) if it[3] is not None else 1
    if s == 0:
        raise RefUndefined("zero step")
    out = []
    i = a
    while (s > 0 and i < b) or (s < 0 and i > b):
        out.append(i)
        i += s
    return out


def run(stmts, env: Env, hooks=None):
    """Execute statements; returns env.  hooks: dict of callbacks for mem/place/prop/write."""
    for s in stmts:
        k = s[0]
        if k == "decl":
            kind, name, e = s[1], s[2], s[3]
            v = ev(e, env)
            if kind == "Signal" and isinstance(v, Int):
                v = Sig(None, int(v))
            if name in env.valuation:
                v = Sig(v.type, env.valuation[name])
            env.vars[name] = v
        elif k == "func":
            env.funcs[s[1]] = (s[2], s[3], s[4])
        elif k == "for":
            for i in loop_values(s[2], env):
                saved = env.vars
                env.vars = dict(saved)
                env.vars[s[1]] = Int(i)
                try:
                    run(s[3], env, hooks)
                finally:
                    env.vars = saved
        elif k == "expr":
            ev(s[1], env)
        elif hooks and k in hooks:
            hooks[k](s, env)
        elif k in ("mem", "write", "latch", "place", "prop", "text", "replace"):
            pass
        else:
            raise ValueError(s)
    return env


# ------------------------------------------------------------------------------------------
# syntactic transformations used to build twins (unrolling, inlining)
# ------------------------------------------------------------------------------------------
def subst_expr(e, consts=None, names=None):
    """Replace variables: consts {name: expr} (substitution), names {old: new} (renaming;
    also applies to memory / entity / function-free identifiers)."""
    consts = consts or {}
    names = names or {}
    if not isinstance(e, tuple) or not e:
        return e
    k = e[0]
    if k == "var":
        if e[1] in consts:
            c = consts[e[1]]
            return c if c[0] in ("int", "var") and not (c[0] == "int" and c[1] < 0) else ("paren", c)
        return ("var", names.get(e[1], e[1]))
    if k == "read":
        return ("read", names.get(e[1], e[1]))
    if k == "output":
        return ("output", names.get(e[1], e[1]))
    if k in ("lit", "proj"):
        t = e[1] if k == "lit" else e[2]
        if isinstance(t, tuple) and t[0] == "typeof":
            if t[1] in consts:
                if consts[t[1]][0] != "var":
                    raise ValueError(".type of a parameter bound to a non-variable cannot be inlined")
                t = ("typeof", consts[t[1]][1])
            else:
                t = ("typeof", names.get(t[1], t[1]))
        if k == "lit":
            return ("lit", t, subst_expr(e[2], consts, names))
        return ("proj", subst_expr(e[1], consts, names), t)
    if k == "call":
        return ("call", e[1], tuple(subst_expr(a, consts, names) for a in e[2]))
    if k == "bundle":
        return ("bundle", tuple(subst_expr(a, consts, names) for a in e[1]))
    return tuple(subst_expr(p, consts, names) if isinstance(p, tuple) else p for p in e)


def declared_names(stmts):
    out = []
    for s in stmts:
        if s[0] == "decl":
            out.append(s[2])
        elif s[0] == "mem":
            out.append(s[1])
        elif s[0] == "place" and s[1]:
            out.append(s[1])
    return out


def subst_stmts(stmts, consts=None, names=None):
    out = []
    names = dict(names or {})
    for k, v in (consts or {}).items():      # a parameter bound to a plain name (entity, memory)
        if v[0] == "var" and k not in names:
            names[k] = v[1]
    for s in stmts:
        k = s[0]
        if k == "decl":
            out.append(("decl", s[1], names.get(s[2], s[2]), subst_expr(s[3], consts, names)))
        elif k == "mem":
            out.append(("mem", names.get(s[1], s[1]), s[2]))
        elif k == "write":
            out.append(("write", names.get(s[1], s[1]), subst_expr(s[2], consts, names),
                        subst_expr(s[3], consts, names) if s[3] is not None else None))
        elif k == "latch":
            out.append(("latch", names.get(s[1], s[1]), subst_expr(s[2], consts, names),
                        subst_expr(s[3], consts, names), subst_expr(s[4], consts, names), s[5]))
        elif k == "place":
            out.append(("place", names.get(s[1], s[1]) if s[1] else s[1], s[2], subst_expr(s[3], consts, names),
                        subst_expr(s[4], consts, names), s[5]))
        elif k == "prop":
            out.append(("prop", names.get(s[1], s[1]), s[2], subst_expr(s[3], consts, names)))
        elif k == "replace":
            out.append(("replace", names.get(s[1], s[1]), s[2], subst_expr(s[3], consts, names), subst_expr(s[4], consts, names)))
        elif k == "expr":
            out.append(("expr", subst_expr(s[1], consts, names)))
        elif k == "for":
            it = s[2]
            if it[0] == "range":
                def b(x):
                    if isinstance(x, str) and consts and x in consts and consts[x][0] == "int":
                        return consts[x][1]
                    return names.get(x, x) if isinstance(x, str) else x
                it = ("range", b(it[1]), b(it[2]), b(it[3]) if it[3] is not None else None)
            out.append(("for", s[1], it, tuple(subst_stmts(s[3], consts, names))))
        else:
            out.append(s)
    return out


def unroll(stmts, env_consts=None):
    """Replace every for loop by copies of its body (iterator substituted, body-local names
    renamed apart).  env_consts: {int variable name: value} for bounds given by variables."""
    env_consts = dict(env_consts or {})
    out = []
    counter = [0]

    def go(ss, depth_tag):
        res = []
        for s in ss:
            if s[0] == "decl" and s[1] == "int" and s[3][0] == "int":
                env_consts[s[2]] = s[3][1]
            if s[0] != "for":
                res.append(s)
                continue
            e = Env()
            for k, v in env_consts.items():
                e.vars[k] = Int(v)
            for val in loop_values(s[2], e):
                counter[0] += 1
                tag = f"_u{counter[0]}"
                body = go(list(s[3]), tag)
                local = {n: n + tag for n in declared_names(body)}
                res += subst_stmts(body, {s[1]: ("int", val)}, local)
        return res
    return go(list(stmts), "")


def _calls_in(e, acc):
    if isinstance(e, tuple) and e:
        if e[0] == "call":
            for a in e[2]:
                _calls_in(a, acc)
            acc.append(e)
        else:
            for p in e[1:]:
                if isinstance(p, tuple):
                    _calls_in(p, acc)
    return acc


def _replace(e, target, repl):
    if e == target:
        return repl
    if isinstance(e, tuple) and e:
        return tuple(_replace(p, target, repl) if isinstance(p, tuple) else p for p in e)
    return e


def inline_calls(stmts):
    """Replace every call by the callee's body (parameters substituted by the argument
    expressions, locals renamed apart, return expression in place of the call)."""
    funcs = {}
    counter = [0]

    def expand(call):
        params, body, ret = funcs[call[1]]
        counter[0] += 1
        tag = f"_c{counter[0]}"
        consts = {}
        for (pt, pn), a in zip(params, call[2]):
            consts[pn] = a
        body = go(list(body))
        local = {n: n + tag for n in declared_names(body)}
        pre = subst_stmts(body, consts, local)
        r = None
        if ret is not None:
            r0 = ret
            # the return expression may itself contain calls
            sub_pre, r0 = expr_calls(r0)
            pre_ret = subst_stmts(sub_pre, consts, local)
            # names declared by nested expansions are already unique
            pre = pre + pre_ret
            r = subst_expr(r0, consts, local)
        return pre, r, local

    def expr_calls(e):
        pre = []
        while True:
            calls = _calls_in(e, [])
            if not calls:
                return pre, e
            c = calls[0]
            p, r, _ = expand(c)
            pre += p
            e = _replace(e, c, ("paren", r) if r is not None and r[0] not in ("var", "int") else r)

    def go(ss):
        out = []
        for s in ss:
            k = s[0]
            if k == "func":
                funcs[s[1]] = (s[2], s[3], s[4])
                continue
            if k == "for":
                out.append(("for", s[1], s[2], tuple(go(list(s[3])))))
                continue
            if k == "decl" and s[1] == "Entity" and s[3][0] == "call":
                pre, r, local = expand(s[3])
                # entity-returning function: the returned local entity *is* the declared entity
                if r is not None and r[0] == "var":
                    pre = subst_stmts(pre, None, {r[1]: s[2]})
                    out += pre
                    continue
            if k == "expr" and s[1][0] == "call":
                pre, r, _ = expand(s[1])
                out += pre
                continue
            # generic: expand calls inside the statement's expressions
            parts = list(s)
            pre_all = []
            for i, p in enumerate(parts):
                if isinstance(p, tuple) and p and isinstance(p[0], str) and i > 0 and k not in ("func",):
                    if k == "place" and i == 5:
                        continue
                    pre, parts[i] = expr_calls(p)
                    pre_all += pre
            out += pre_all
            out.append(tuple(parts))
        return out
    return go(list(stmts))
