"""Harness: import the real compiler from /repo, install the seams of DESIGN 2.1, compile.

Nothing here changes compiler logic.  The seams are applied by wrapping objects at import
time; a seam whose target is missing is a hard harness error (HarnessError -> exit 2).
"""
from __future__ import annotations

import json
import logging
import os
import sys
import warnings

REPO = os.environ.get("FV_REPO", "/repo")


class HarnessError(Exception):
    pass


_installed = False
# ---- seam state (per process; children forked per case set these before compiling) -------------
LAYOUT_DEVIATION = None      # None | (kind, arg)   -- see layout_answer()
ROUTE_FAULTS = ()            # tuple of (attempt, call_index) at which route_signal returns None
DET_TIME_FACTOR = 0.05       # deterministic-time units per second of the repo's wall limit
_route_state = {"attempt": -1, "call": 0}
LAST = {}                    # plan capture: {"plan":..., "blueprint":...}
SOLVER_CALLS = []            # (time_limit, status) per Solve, for evidence


def install():
    """Import the compiler from REPO and install all seams.  Idempotent."""
    global _installed
    if _installed:
        return
    if REPO not in sys.path:
        sys.path.insert(0, REPO)
    warnings.simplefilter("ignore")
    logging.disable(logging.CRITICAL)
    try:
        from ortools.sat.python import cp_model
        import dsl_compiler.cli as cli  # noqa
        from dsl_compiler.src.layout import integer_layout_solver as ILS
        from dsl_compiler.src.layout import wire_router as WR
        from dsl_compiler.src.layout import planner as PL
        from dsl_compiler.src.parsing import parser as PA
        from dsl_compiler.src.emission import emitter as EM
    except Exception as ex:  # pragma: no cover
        raise HarnessError(f"cannot import compiler from {REPO}: {type(ex).__name__}: {ex}")
    if not os.path.realpath(cli.__file__).startswith(os.path.realpath(REPO)):
        raise HarnessError(f"dsl_compiler imported from {cli.__file__}, not from {REPO}")

    # 1. deterministic solver ---------------------------------------------------------------
    # CpSolver.Solve (used by the repo) is a deprecation shim calling self.solve
    if not hasattr(cp_model.CpSolver, "Solve") or not hasattr(cp_model.CpSolver, "solve"):
        raise HarnessError("seam target CpSolver.Solve/solve missing")
    _orig_solve = cp_model.CpSolver.solve

    def solve(self, model, cb=None):
        p = self.parameters
        tl = p.max_time_in_seconds
        p.num_workers = 1
        p.random_seed = 0
        p.max_deterministic_time = max(0.02, tl * DET_TIME_FACTOR)
        p.max_time_in_seconds = 3600.0
        st = _orig_solve(self, model, cb) if cb is not None else _orig_solve(self, model)
        SOLVER_CALLS.append((tl, int(st)))
        return st

    cp_model.CpSolver.solve = solve

    # 2. layout-outcome seam ----------------------------------------------------------------
    if not hasattr(ILS.IntegerLayoutEngine, "optimize"):
        raise HarnessError("seam target IntegerLayoutEngine.optimize missing")
    _orig_opt = ILS.IntegerLayoutEngine.optimize

    def optimize(self, time_limit_seconds=60):
        dev = LAYOUT_DEVIATION
        if dev is not None and dev[0] == "no-solution":
            if not hasattr(self, "_fallback_grid_layout"):
                raise HarnessError("seam target _fallback_grid_layout missing")
            return self._fallback_grid_layout()
        pos = _orig_opt(self, time_limit_seconds)
        if dev is None:
            return pos
        try:
            return layout_answer(self, dict(pos), dev)
        except HarnessError:
            raise
        except Exception as ex:
            raise HarnessError(f"layout-answer seam failed for {dev}: {type(ex).__name__}: {ex}")

    ILS.IntegerLayoutEngine.optimize = optimize

    # 3. routing-fault seam -----------------------------------------------------------------
    rn = getattr(WR, "RelayNetwork", None)
    if rn is None:
        from dsl_compiler.src.layout import connection_planner as CP
        rn = getattr(CP, "RelayNetwork", None)
    if rn is None or not hasattr(rn, "route_signal"):
        raise HarnessError("seam target RelayNetwork.route_signal missing")
    _orig_route = rn.route_signal

    def route_signal(self, *a, **k):
        idx = _route_state["call"]
        _route_state["call"] += 1
        if (_route_state["attempt"], idx) in ROUTE_FAULTS:
            return None
        return _orig_route(self, *a, **k)

    rn.route_signal = route_signal
    if not hasattr(PL.LayoutPlanner, "_reset_layout_state"):
        raise HarnessError("seam target LayoutPlanner._reset_layout_state missing")
    _orig_reset = PL.LayoutPlanner._reset_layout_state

    def reset(self):
        _route_state["attempt"] += 1
        _route_state["call"] = 0
        return _orig_reset(self)

    PL.LayoutPlanner._reset_layout_state = reset

    # 4. grammar cache ----------------------------------------------------------------------
    if hasattr(PA.DSLParser, "_load_grammar"):
        _orig_load = PA.DSLParser._load_grammar
        cache = {}

        def _load(self, *a, **k):
            if "p" not in cache:
                _orig_load(self, *a, **k)
                cache["p"] = getattr(self, "parser", None)
                if cache["p"] is None:
                    raise HarnessError("grammar cache seam: DSLParser.parser not set by _load_grammar")
            else:
                self.parser = cache["p"]

        PA.DSLParser._load_grammar = _load
    else:
        raise HarnessError("seam target DSLParser._load_grammar missing")

    # 5. plan capture -----------------------------------------------------------------------
    if not hasattr(EM.BlueprintEmitter, "emit_from_plan"):
        raise HarnessError("seam target BlueprintEmitter.emit_from_plan missing")
    _orig_emit = EM.BlueprintEmitter.emit_from_plan

    def emit(self, plan, *a, **k):
        bp = _orig_emit(self, plan, *a, **k)
        LAST["plan"] = plan
        LAST["blueprint"] = bp
        return bp

    EM.BlueprintEmitter.emit_from_plan = emit
    _installed = True


def layout_answer(engine, pos, dev):
    """Another feasible answer of the same hard constraints (no overlap, fixed positions,
    shared input row / output row, intermediates strictly between, coordinates >= 0)."""
    kind = dev[0]
    fixed = set(getattr(engine, "fixed_positions", {}))
    placements = engine.entity_placements

    def role(e):
        p = placements.get(e)
        if p is None:
            return "mid"
        if p.properties.get("is_input") or p.role == "input":
            return "in"
        if p.properties.get("is_output") or p.role == "output":
            return "out"
        return "mid"

    free = [e for e in pos if e not in fixed]
    if not free:
        return pos
    if fixed:
        # a transformation of the free entities may collide with fixed ones (user entities, power
        # poles): apply it, and if any free entity then overlaps a fixed one, move that free entity
        # to the right of everything instead (still a feasible answer of the hard constraints).
        moved = layout_answer_free(engine, dict(pos), dev, free, role)
        rects = {e: (engine.fixed_positions[e][0], engine.fixed_positions[e][1]) + tuple(engine.footprints.get(e, (1, 1)))
                 for e in fixed if e in engine.fixed_positions}
        right = max([x + w for (x, y, w, h) in rects.values()] +
                    [moved[e][0] + engine.footprints.get(e, (1, 1))[0] for e in free]) + 1
        for e in sorted(free):
            x, y = moved[e]
            w, h = engine.footprints.get(e, (1, 1))
            if any(x < fx + fw and fx < x + w and y < fy + fh and fy < y + h for (fx, fy, fw, fh) in rects.values()):
                moved[e] = (right, y)
                right += w + 1
        return moved
    return layout_answer_free(engine, pos, dev, free, role)


def layout_answer_free(engine, pos, dev, free, role):
    kind = dev[0]
    fixed = ()
    if kind == "stretch-x":
        k = dev[1]
        for e in free:
            pos[e] = (pos[e][0] * k, pos[e][1])
    elif kind == "stretch-y":
        k = dev[1]
        for e in free:
            pos[e] = (pos[e][0], pos[e][1] * k)
    elif kind == "mirror-x":
        mx = max(pos[e][0] + engine.footprints.get(e, (1, 1))[0] for e in free)
        for e in free:
            w = engine.footprints.get(e, (1, 1))[0]
            pos[e] = (mx - pos[e][0] - w, pos[e][1])
    elif kind == "lower-out":
        k = dev[1]
        for e in free:
            if role(e) == "out":
                pos[e] = (pos[e][0], pos[e][1] + k)
    elif kind == "push":
        # push one free entity (by sorted index) k tiles to the right of everything in its rows
        idx, k = dev[1], dev[2]
        ids = sorted(free)
        if idx < len(ids):
            e = ids[idx]
            mx = max(pos[o][0] + engine.footprints.get(o, (1, 1))[0] for o in pos)
            pos[e] = (mx + k, pos[e][1])
    elif kind == "swap":
        # exchange the places of two free entities of the same role and footprint (another optimum /
        # near-optimum of the same model: the solver's choice between them is arbitrary)
        ids = sorted(e for e in free if role(e) == "mid")
        i, j = dev[1], dev[2]
        if i < len(ids) and j < len(ids):
            a, b = ids[i], ids[j]
            if engine.footprints.get(a, (1, 1)) == engine.footprints.get(b, (1, 1)):
                pos[a], pos[b] = pos[b], pos[a]
    elif kind == "hint-grid":
        # 3-spaced grid, row by role: inputs row 0, mids rows, outputs last row
        ins = sorted(e for e in free if role(e) == "in")
        outs = sorted(e for e in free if role(e) == "out")
        mids = sorted(e for e in free if role(e) == "mid")
        if fixed:
            return pos
        y = 0
        for i, e in enumerate(ins):
            pos[e] = (i * 3, 0)
        y = 3 if ins else 0
        per = 6
        for i, e in enumerate(mids):
            pos[e] = ((i % per) * 3, y + (i // per) * 3)
        y = y + ((len(mids) + per - 1) // per) * 3 + 1
        for i, e in enumerate(outs):
            pos[e] = (i * 3, y)
    else:
        raise HarnessError(f"unknown layout deviation {dev}")
    return pos


def reset_case_state():
    _route_state["attempt"] = -1
    _route_state["call"] = 0
    LAST.clear()
    del SOLVER_CALLS[:]


class Rejected(Exception):
    """The compiler refused the program (exception or success=False)."""

    def __init__(self, kind, msg):
        super().__init__(f"{kind}: {msg}")
        self.kind = kind
        self.msg = msg


def compile_src(src, optimize=True, poles=None, deviation=None, faults=(), name=None,
                source_name="<string>", config=None, retries=3):
    """Compile with the real compile_dsl_source(use_json=True).  Returns the blueprint dict
    (the value under "blueprint").  Raises Rejected if the compiler refuses."""
    global LAYOUT_DEVIATION, ROUTE_FAULTS
    install()
    from dsl_compiler.cli import compile_dsl_source
    reset_case_state()
    LAYOUT_DEVIATION = deviation
    ROUTE_FAULTS = tuple(tuple(f) for f in faults)
    kw = dict(use_json=True, optimize=optimize, power_pole_type=poles, source_name=source_name,
              max_layout_retries=retries)
    if name is not None:
        kw["program_name"] = name
    if config is not None:
        kw["config"] = config
    try:
        ok, res, diags = compile_dsl_source(src, **kw)
    except HarnessError:
        raise
    except RecursionError as ex:
        raise Rejected("RecursionError", str(ex)[:200])
    except Exception as ex:
        raise Rejected(type(ex).__name__, str(ex)[:400])
    finally:
        LAYOUT_DEVIATION = None
        ROUTE_FAULTS = ()
    if not ok:
        raise Rejected("success=False", f"{res}: {' | '.join(str(d) for d in diags)[:400]}")
    try:
        doc = json.loads(res)
        return doc["blueprint"]
    except Exception as ex:
        raise Rejected("BadOutput", f"result is not blueprint JSON: {ex}")
