"""Tick-accurate model of the Factorio 2.0 circuit network, executing blueprint JSON as emitted.

Trusted base (DESIGN 2.2).  Anything whose game semantics we are not sure of raises Unmodelled.
"""
from __future__ import annotations

M32 = 1 << 32
INT_MIN = -(1 << 31)
INT_MAX = (1 << 31) - 1


class Unmodelled(Exception):
    pass


def w(x):
    x &= M32 - 1
    return x - M32 if x >= (1 << 31) else x


def sigkey(s):
    if s.get("quality") not in (None, "normal"):
        raise Unmodelled("quality-qualified signal")
    return (s.get("type", "item"), s["name"])


WILD = ("signal-each", "signal-everything", "signal-anything")
COMBINATORS = ("arithmetic-combinator", "decider-combinator")


def arith_op(o, a, b):
    if o == "*":
        return w(a * b)
    if o == "+":
        return w(a + b)
    if o == "-":
        return w(a - b)
    if o == "/":
        if b == 0:
            return 0
        if a == INT_MIN and b == -1:
            raise Unmodelled("INT_MIN / -1")
        q = abs(a) // abs(b)
        return w(q if (a < 0) == (b < 0) else -q)
    if o == "%":
        if b == 0:
            return 0
        if a == INT_MIN and b == -1:
            raise Unmodelled("INT_MIN % -1")
        r = abs(a) % abs(b)
        return w(r if a >= 0 else -r)
    if o == "^":
        if b < 0:
            raise Unmodelled("negative exponent")
        if b > 64 and abs(a) > 1:
            raise Unmodelled("huge exponent")
        return w(pow(a, b))
    if o == "<<":
        if not 0 <= b < 32:
            raise Unmodelled("shift count outside 0..31")
        return w(a << b)
    if o == ">>":
        if not 0 <= b < 32:
            raise Unmodelled("shift count outside 0..31")
        return w(a >> b)
    if o == "AND":
        return w(a & b)
    if o == "OR":
        return w(a | b)
    if o == "XOR":
        return w(a ^ b)
    raise Unmodelled(f"arithmetic operation {o!r}")


def compare(c, a, b):
    if c == "<":
        return a < b
    if c == ">":
        return a > b
    if c in ("=", "=="):
        return a == b
    if c in ("≠", "!="):
        return a != b
    if c in ("≤", "<="):
        return a <= b
    if c in ("≥", ">="):
        return a >= b
    raise Unmodelled(f"comparator {c!r}")


class Circuit:
    """A blueprint as a transition system.  state: {entity_number: {sigkey: value}} for every
    arithmetic/decider combinator."""

    def __init__(self, bp):
        self.bp = bp
        self.ents = {e["entity_number"]: e for e in bp.get("entities", [])}
        self.parent = {}
        for wire in bp.get("wires", []) or []:
            a, ca, b, cb = wire
            if ca in (5, 6) or cb in (5, 6):
                continue
            self._union((a, ca), (b, cb))
        self.combs = sorted(n for n, e in self.ents.items() if e["name"] in COMBINATORS)
        for e in self.ents.values():
            if e["name"] == "selector-combinator":
                raise Unmodelled("selector combinator")
        self.const_override = {}   # entity_number -> {sigkey: value}
        self.env = {}              # entity_number -> {sigkey: value} (chest/tank contents)
        self.mixed_andor = False   # set when a decider mixes and/or (evidence: grouping matters)
        self._const_cache = {}
        # static: per combinator, pre-resolved roots
        self.and_or_differs = 0

    # -- union-find ---------------------------------------------------------------------
    def _find(self, x):
        p = self.parent
        p.setdefault(x, x)
        r = x
        while p[r] != r:
            r = p[r]
        while p[x] != r:
            p[x], x = r, p[x]
        return r

    def _union(self, a, b):
        ra, rb = self._find(a), self._find(b)
        if ra != rb:
            self.parent[ra] = rb

    def root(self, num, conn):
        if (num, conn) in self.parent:
            return self._find((num, conn))
        return None

    # -- sources ------------------------------------------------------------------------
    def const_out(self, num):
        if num in self.const_override:
            return self.const_override[num]
        if num in self._const_cache:
            return self._const_cache[num]
        e = self.ents[num]
        cb = e.get("control_behavior", {}) or {}
        out = {}
        if cb.get("is_on", True) is not False:
            secs = cb.get("sections", {}).get("sections", []) or []
            for sec in secs:
                if sec.get("active", True) is False:
                    continue
                for f in sec.get("filters", []) or []:
                    if "name" not in f:
                        continue
                    k = sigkey(f)
                    if k[1] in WILD:
                        raise Unmodelled("wildcard in constant combinator")
                    out[k] = w(out.get(k, 0) + f.get("count", 0))
        self._const_cache[num] = out
        return out

    def initial_state(self):
        return {n: {} for n in self.combs}

    def networks(self, state):
        nets = {}

        def add(num, conns, o):
            if not o:
                return
            seen = set()
            for c in conns:
                r = self.root(num, c)
                if r is None or r in seen:
                    continue
                seen.add(r)
                d = nets.setdefault(r, {})
                for k, v in o.items():
                    d[k] = w(d.get(k, 0) + v)

        for n, e in self.ents.items():
            nm = e["name"]
            if nm == "constant-combinator":
                add(n, (1, 2), self.const_out(n))
            elif nm in COMBINATORS:
                add(n, (3, 4), state[n])
            elif n in self.env:
                add(n, (1, 2), self.env[n])
        return nets

    def read(self, nets, num, conns=(1, 2), sel=None):
        out = {}
        seen = set()
        for c, color in zip(conns, ("red", "green")):
            if sel is not None and sel.get(color, True) is False:
                continue
            r = self.root(num, c)
            if r is None or r in seen:
                continue
            seen.add(r)
            for k, v in nets.get(r, {}).items():
                out[k] = w(out.get(k, 0) + v)
        return {k: v for k, v in out.items() if v != 0}

    # -- combinators --------------------------------------------------------------------
    def _arith(self, nets, n, c):
        o = c.get("operation", "*")
        fs = c.get("first_signal")
        ss = c.get("second_signal")
        outs = c.get("output_signal")
        if outs is None:
            return {}
        in1 = self.read(nets, n, (1, 2), c.get("first_signal_networks"))
        in2 = self.read(nets, n, (1, 2), c.get("second_signal_networks"))
        if ss and ss["name"] in WILD:
            if ss["name"] != "signal-each" or (fs and fs["name"] == "signal-each"):
                raise Unmodelled("wildcard second operand")
            # each as the second operand
            b_each = True
        else:
            b_each = False
        b = in2.get(sigkey(ss), 0) if (ss and not b_each) else c.get("second_constant", 0)
        res = {}
        ok = sigkey(outs)
        if fs and fs["name"] == "signal-each":
            for k, v in in1.items():
                r = arith_op(o, v, b)
                if ok[1] == "signal-each":
                    res[k] = r
                else:
                    res[ok] = w(res.get(ok, 0) + r)
        elif b_each:
            a = in1.get(sigkey(fs), 0) if fs else c.get("first_constant", 0)
            for k, v in in2.items():
                r = arith_op(o, a, v)
                if ok[1] == "signal-each":
                    res[k] = r
                else:
                    res[ok] = w(res.get(ok, 0) + r)
        else:
            if fs and fs["name"] in WILD:
                raise Unmodelled("wildcard first operand other than each")
            if ok[1] in WILD:
                raise Unmodelled("wildcard output without each input")
            a = in1.get(sigkey(fs), 0) if fs else c.get("first_constant", 0)
            res[ok] = arith_op(o, a, b)
        return {k: v for k, v in res.items() if v}

    def _cond(self, nets, n, cd, each_key=None):
        comp = cd.get("comparator", "<")
        fs = cd.get("first_signal")
        ss = cd.get("second_signal")
        in1 = self.read(nets, n, (1, 2), cd.get("first_signal_networks"))
        in2 = self.read(nets, n, (1, 2), cd.get("second_signal_networks"))
        if ss:
            if ss["name"] in WILD:
                if ss["name"] == "signal-each" and each_key is not None:
                    b = in2.get(each_key, 0)
                else:
                    raise Unmodelled("wildcard as second condition signal")
            else:
                b = in2.get(sigkey(ss), 0)
        else:
            b = cd.get("constant", 0)
        if fs is None:
            return False
        nm = fs["name"]
        if nm == "signal-everything":
            return all(compare(comp, v, b) for v in in1.values())
        if nm == "signal-anything":
            return any(compare(comp, v, b) for v in in1.values())
        if nm == "signal-each":
            if each_key is None:
                raise Unmodelled("each condition without each context")
            return compare(comp, in1.get(each_key, 0), b)
        return compare(comp, in1.get(sigkey(fs), 0), b)

    def _overall(self, nets, n, conds, each_key=None):
        vals = [self._cond(nets, n, cd, each_key) for cd in conds]
        if not vals:
            return False  # decider without conditions never outputs
        groups = [[]]
        kinds = set()
        for i, cd in enumerate(conds):
            if i > 0:
                ct = cd.get("compare_type", "or")
                kinds.add(ct)
                if ct == "or":
                    groups.append([])
            groups[-1].append(vals[i])
        res = any(all(g) for g in groups)
        if len(kinds) > 1:
            self.mixed_andor = True
            ltr = vals[0]
            for i, cd in enumerate(conds[1:], 1):
                ltr = (ltr and vals[i]) if cd.get("compare_type", "or") == "and" else (ltr or vals[i])
            if ltr != res:
                self.and_or_differs += 1
        return res

    def _decider(self, nets, n, c):
        conds = c.get("conditions", []) or []
        outs = c.get("outputs", []) or []
        each_conds = [cd for cd in conds if (cd.get("first_signal") or {}).get("name") == "signal-each"]
        res = {}
        if each_conds:
            if len(conds) > 1:
                raise Unmodelled("each in a multi-condition decider")
            cd0 = conds[0]
            in1 = self.read(nets, n, (1, 2), cd0.get("first_signal_networks"))
            for k in in1:
                if self._overall(nets, n, conds, k):
                    for o in outs:
                        osig = o["signal"]
                        if osig["name"] == "signal-each":
                            key = k
                        elif osig["name"] in WILD:
                            raise Unmodelled("wildcard output in each decider")
                        else:
                            key = sigkey(osig)
                        if o.get("copy_count_from_input", True):
                            inp = self.read(nets, n, (1, 2), o.get("networks"))
                            val = inp.get(k, 0)
                        else:
                            val = o.get("constant", 1)
                        res[key] = w(res.get(key, 0) + val)
        elif self._overall(nets, n, conds):
            for o in outs:
                osig = o["signal"]
                copy = o.get("copy_count_from_input", True)
                if osig["name"] == "signal-everything":
                    inp = self.read(nets, n, (1, 2), o.get("networks"))
                    for k, v in inp.items():
                        res[k] = w(res.get(k, 0) + (v if copy else o.get("constant", 1)))
                elif osig["name"] in WILD:
                    raise Unmodelled(f"wildcard output {osig['name']}")
                else:
                    k = sigkey(osig)
                    if copy:
                        inp = self.read(nets, n, (1, 2), o.get("networks"))
                        val = inp.get(k, 0)
                    else:
                        val = o.get("constant", 1)
                    res[k] = w(res.get(k, 0) + val)
        return {k: v for k, v in res.items() if v}

    def tick(self, state):
        nets = self.networks(state)
        new = {}
        for n in self.combs:
            e = self.ents[n]
            cb = e.get("control_behavior", {}) or {}
            if e["name"] == "arithmetic-combinator":
                new[n] = self._arith(nets, n, cb.get("arithmetic_conditions", {}) or {})
            else:
                new[n] = self._decider(nets, n, cb.get("decider_conditions", {}) or {})
        return new

    def settle(self, state, horizon=None):
        """Tick until the state repeats.  Returns (state, ticks) or (state, None) if the
        horizon was reached without a fixed point."""
        if horizon is None:
            horizon = 2 * len(self.combs) + 8
        for i in range(horizon):
            new = self.tick(state)
            if new == state:
                return state, i
            state = new
        return state, None

    # -- observation --------------------------------------------------------------------
    def at(self, state, num, conns=(1, 2)):
        """Signals (sum of red and green) seen on the given connectors of an entity."""
        return self.read(self.networks(state), num, conns)

    def entity_condition(self, state, num):
        """Evaluate the circuit condition of a non-combinator entity.  Returns
        (enabled: bool, info: str).  A wired entity with no condition is always enabled."""
        e = self.ents[num]
        cb = e.get("control_behavior", {}) or {}
        cond = cb.get("circuit_condition")
        if self.root(num, 1) is None and self.root(num, 2) is None:
            # circuit conditions only apply to an entity that is connected to a circuit network
            return True, "not-connected"
        if "circuit_enabled" in cb and cb["circuit_enabled"] is False:
            return True, "circuit_enabled=false"
        if cond is None:
            if cb.get("circuit_enabled"):
                cond = {}
            else:
                return True, "no-condition"
        nets = self.networks(state)
        inp = self.read(nets, num, (1, 2))
        comp = cond.get("comparator", "<")
        fs = cond.get("first_signal")
        ss = cond.get("second_signal")
        b = inp.get(sigkey(ss), 0) if ss else cond.get("constant", 0)
        if fs is None:
            return False, "no-first-signal"
        nm = fs["name"]
        if nm == "signal-everything":
            return all(compare(comp, v, b) for v in inp.values()), "everything"
        if nm == "signal-anything":
            return any(compare(comp, v, b) for v in inp.values()), "anything"
        if nm == "signal-each":
            raise Unmodelled("each in entity condition")
        return compare(comp, inp.get(sigkey(fs), 0), b), "plain"


def canon_state(state):
    return tuple((n, tuple(sorted(o.items()))) for n, o in sorted(state.items()))


def uncanon_state(cs):
    return {n: dict(o) for n, o in cs}
