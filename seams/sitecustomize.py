"""Installs the /verif seams inside real CLI subprocesses when FACTO_VERIF=1 (DESIGN 2.1)."""
import os
import sys

if os.environ.get("FACTO_VERIF") == "1":
    sys.path.insert(0, os.path.dirname(os.path.dirname(os.path.abspath(__file__))))
    try:
        from fv import harness
        harness.install()
        import logging
        logging.disable(logging.NOTSET)
    except Exception as ex:  # pragma: no cover
        sys.stderr.write(f"FACTO_VERIF seam installation failed: {ex}\n")
        os._exit(97)
