#!/venv/bin/python
"""Maintenance (development time only): turn the failing cases dumped by `./check Cxx --learn`
(one or more learn files, e.g. quick and thorough) into the committed index
known_cases/<pid>.json + the open entries of known_findings.jsonl for that property.
Cases are attributed to root causes by the predicates in known_rules/<pid>.py; a failing case no
predicate claims aborts the tool (it must be looked at).  The checks never call this."""
import importlib.util
import json
import os
import sys

VERIF = os.path.dirname(os.path.dirname(os.path.abspath(__file__)))


def main():
    pid = sys.argv[1]
    learn = []
    for p in sys.argv[2:]:
        learn += json.load(open(p))
    spec = importlib.util.spec_from_file_location("rules", os.path.join(VERIF, "known_rules", f"{pid}.py"))
    mod = importlib.util.module_from_spec(spec)
    spec.loader.exec_module(mod)
    cases = {}
    witness = {}
    unclaimed = []
    seen = {}
    for x in learn:
        if x["id"] in seen:
            if seen[x["id"]] != x["digest"]:
                print("digest differs between learn files for", x["id"])
                sys.exit(1)
            continue
        seen[x["id"]] = x["digest"]
        for fid, what, pred in mod.RULES:
            if pred(x["case"], x["detail"]):
                cases.setdefault(fid, {})[x["id"]] = x["digest"]
                size = len(json.dumps(x["case"]))
                if fid not in witness or size < witness[fid][0]:
                    witness[fid] = (size, x)
                break
        else:
            unclaimed.append(x)
    if unclaimed:
        print(f"{len(unclaimed)} failing case(s) not claimed by any rule:")
        for x in unclaimed[:40]:
            d = x["detail"]
            print("  ", x["id"], json.dumps(d, default=str)[:400])
        sys.exit(1)
    with open(os.path.join(VERIF, "known_cases", f"{pid}.json"), "w") as f:
        json.dump({"property": pid, "cases": {k: dict(sorted(v.items())) for k, v in sorted(cases.items())}}, f, indent=0, sort_keys=True)
    path = os.path.join(VERIF, "known_findings.jsonl")
    lines = []
    if os.path.exists(path):
        for line in open(path):
            s = line.strip()
            if s and not s.startswith("fixed:") and not s.startswith("#"):
                if json.loads(s).get("property") == pid:
                    continue
            lines.append(line.rstrip("\n"))
    for fid, what, pred in mod.RULES:
        if fid not in cases:
            continue
        wx = witness[fid][1]
        d = wx["detail"] if isinstance(wx["detail"], dict) else {"detail": wx["detail"]}
        ent = {"id": fid, "property": pid, "status": "open", "what": what,
               "witness": {"case_id": wx["id"], **{k: d[k] for k in list(d)[:6]}},
               "n_listed_cases": len(cases[fid]), "cases_file": f"known_cases/{pid}.json"}
        lines.append(json.dumps(ent, default=str))
    with open(path, "w") as f:
        f.write("\n".join(lines) + "\n")
    print({k: len(v) for k, v in cases.items()})


if __name__ == "__main__":
    main()
