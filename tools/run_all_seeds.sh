#!/bin/bash
# regression of the detection claims: every seeded change is applied in a scratch worktree (/tmp/rt, selected through
# FV_REPO) and the quick tier of each check listed in its meta.json must report a VIOLATION; prints one line per seed.
# usage: tools/run_all_seeds.sh [<glob of seed names, default *>]      (WT=<scratch worktree>, default /tmp/rt)
cd /verif
export WT=${WT:-/tmp/rt}
[ -d $WT ] || git -C /repo worktree add -q --detach $WT HEAD
git -C $WT checkout -q --detach "$(git -C /repo rev-parse HEAD)" 2>/dev/null
for d in seeded/${1:-*}/; do
  name=$(basename "$d")
  checks=$(/venv/bin/python -c "import json;print(' '.join(json.load(open('$d/meta.json'))['caught_by_quick_tier_of']))")
  res=""
  for c in $checks; do
    out=$(tools/try_mutation_wt.sh "$d/patch.diff" quick "$c" 2>&1)
    if echo "$out" | grep -q "^VIOLATION"; then res="$res $c:caught"; else res="$res $c:MISSED($(echo "$out" | grep -o 'rc=[0-9]*' | head -1))"; fi
  done
  echo "$name ->$res"
done
