#!/bin/bash
# maintenance: run every quick check from a fresh process with the given VERIF_SEED; prints exit code and summary
# usage: tools/run_quick_all.sh <seed> [Cxx ...]
cd "$(dirname "$0")/.."
seed="$1"; shift
ids="$@"; [ -z "$ids" ] && ids="C01 C02 C03 C04 C05 C06 C07 C08 C09 C10 C11 C12 C13 C14 C15 C16 C17 C18 C19 C20"
for id in $ids; do
  out=$(VERIF_SEED=$seed ./check $id --tier quick 2>&1); rc=$?
  echo "$id seed=$seed rc=$rc violations=$(echo "$out" | grep -c '^VIOLATION') known=$(echo "$out" | grep -c '^KNOWN-FINDING') $(echo "$out" | grep "^\[$id\] {" | cut -c1-120)"
done
