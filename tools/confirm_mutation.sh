#!/bin/bash
# usage: tools/confirm_mutation.sh <worktree>   (patch applied in the worktree, deliverables in <worktree>/_mutation)
# confirms independently: demo fails with the change, passes without it, and the repository suite still passes with it.
wt="$1"; m="$wt/_mutation"
cd "$wt" || exit 2
run_demo() { (cd "$wt" && PYTHONPATH="$wt" timeout 900 /venv/bin/python _mutation/demo.py > "$m/$1.log" 2>&1; echo $?); }
with=$(run_demo demo_with)
git -C "$wt" diff -- . ':(exclude)_mutation' > "$m/patch.confirmed.diff"
git -C "$wt" stash -q -- dsl_compiler compile.py lib 2>/dev/null || git -C "$wt" stash -q
without=$(run_demo demo_without)
git -C "$wt" stash pop -q
suite=$(cd "$wt" && /venv/bin/python -m pytest -q -p no:cacheprovider -q -n 5 --timeout=900 \
  --deselect tests/test_cli.py::TestCliCoverageGaps::test_read_file_error_unreadable_file \
  --deselect tests/test_cli.py::TestCliCoverageGaps::test_write_file_error_unwritable_directory 2>&1 | tail -1)
echo "{\"demo_exit_with_change\": $with, \"demo_exit_without_change\": $without, \"suite\": \"$suite\"}" > "$m/confirm.json"
cat "$m/confirm.json"
