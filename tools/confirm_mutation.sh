#!/bin/bash
# usage: tools/confirm_mutation.sh <worktree>   (patch applied in the worktree, deliverables in <worktree>/_mutation)
# confirms independently: demo fails with the change, passes without it, and the repository suite still passes with it.
# (never uses `git stash`: the stash is shared by all worktrees of a repository)
wt="$1"; m="$wt/_mutation"
cd "$wt" || exit 2
run_demo() { (cd "$wt" && PYTHONPATH="$wt" timeout 900 /venv/bin/python _mutation/demo.py > "$m/$1.log" 2>&1; echo $?); }
git -C "$wt" diff -- . ':(exclude)_mutation' > "$m/patch.confirmed.diff"
if ! diff -q "$m/patch.confirmed.diff" "$m/patch.diff" > /dev/null; then echo "{\"error\": \"worktree diff differs from patch.diff\"}" > "$m/confirm.json"; cat "$m/confirm.json"; exit 1; fi
with=$(run_demo demo_with)
git -C "$wt" apply -R "$m/patch.confirmed.diff"
without=$(run_demo demo_without)
git -C "$wt" apply "$m/patch.confirmed.diff"
suite=$(cd "$wt" && /venv/bin/python -m pytest -q -p no:cacheprovider -q -n 6 --timeout=900 --deselect tests/test_cli.py::TestCliCoverageGaps::test_read_file_error_unreadable_file --deselect tests/test_cli.py::TestCliCoverageGaps::test_write_file_error_unwritable_directory 2>&1 | grep -E "^FAILED|passed|failed" | tr '\n' ' ' | tr '"' "'" | cut -c1-600)
echo "{\"demo_exit_with_change\": $with, \"demo_exit_without_change\": $without, \"suite\": \"$suite\"}" > "$m/confirm.json"
cat "$m/confirm.json"
