#!/bin/bash
# maintenance: run the thorough tier of the given checks from fresh processes; prints exit code and summary
cd "$(dirname "$0")/.."
for id in "$@"; do
  out=$(./check $id --tier thorough 2>&1); rc=$?
  echo "$id thorough rc=$rc violations=$(echo "$out" | grep -c '^VIOLATION') known=$(echo "$out" | grep -c '^KNOWN-FINDING') $(echo "$out" | grep "^\[$id\] {" | cut -c1-120)"
done
