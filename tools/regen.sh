#!/bin/bash
# maintenance: regenerate the known-case index of the given checks from the current /repo tree
# usage: tools/regen.sh quick|both C01 C02 ...
cd "$(dirname "$0")/.."
mode="$1"; shift
mkdir -p /tmp/w
for id in "$@"; do
  FV_LEARN_DIR=/tmp/w ./check "$id" --tier quick --learn > /tmp/w/regen_${id}_quick.log 2>&1
  files="/tmp/w/learn_${id}_quick.json"
  if [ "$mode" = both ]; then
    FV_LEARN_DIR=/tmp/w ./check "$id" --tier thorough --learn > /tmp/w/regen_${id}_thorough.log 2>&1
    files="$files /tmp/w/learn_${id}_thorough.json"
  fi
  if [ -f known_rules/${id}.py ]; then
    tools/mkknown.py "$id" $files || echo "mkknown failed for $id"
  else
    n=$(/venv/bin/python -c "import json,sys; print(sum(len(json.load(open(f))) for f in sys.argv[1:]))" $files)
    echo "$id: $n failing cases, no rules file"
  fi
  tail -1 /tmp/w/regen_${id}_quick.log | cut -c1-200
  [ "$mode" = both ] && grep "^\[$id\] {" /tmp/w/regen_${id}_thorough.log | cut -c1-200
done
