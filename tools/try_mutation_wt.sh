#!/bin/bash
# like try_mutation.sh but in a scratch worktree (/tmp/rt) selected through FV_REPO, so /repo stays untouched
patch="$(realpath "$1")"; tier="$2"; shift 2
wt=${WT:-/tmp/rt}
cd $wt || exit 2
git checkout -q -- . ; git clean -fdq -- dsl_compiler lib compile.py
git apply "$patch" || { echo "patch does not apply"; exit 2; }
trap "git -C $wt checkout -q -- . ; git -C $wt clean -fdq -- dsl_compiler lib compile.py" EXIT
cd /verif
for id in "$@"; do
  out=$(FV_REPO=$wt ./check "$id" --tier "$tier" 2>&1)
  rc=$?
  nv=$(echo "$out" | grep -c "^VIOLATION")
  echo "== $id rc=$rc violations_shown=$nv $(echo "$out" | grep "^\[$id\] {" | cut -c1-160)"
  echo "$out" | grep -A1 "^VIOLATION" | head -6 | cut -c1-400
  echo "$out" | grep "HARNESS-ERROR" | head -3 | cut -c1-300
done
