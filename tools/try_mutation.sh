#!/bin/bash
# usage: tools/try_mutation.sh <patch.diff> <tier> C01 C02 ...   -- applies the patch to /repo, runs the checks, reverts
patch="$1"; tier="$2"; shift 2
cd /repo || exit 2
if [ -n "$(git status --porcelain)" ]; then echo "/repo not clean"; exit 2; fi
git apply "$patch" || { echo "patch does not apply"; exit 2; }
trap 'git -C /repo checkout -- . ; git -C /repo clean -fdq -- dsl_compiler lib compile.py' EXIT
cd /verif
for id in "$@"; do
  out=$(./check "$id" --tier "$tier" 2>&1)
  rc=$?
  nv=$(echo "$out" | grep -c "^VIOLATION")
  echo "== $id rc=$rc violations_shown=$nv $(echo "$out" | grep "^\[$id\] {" | cut -c1-160)"
  echo "$out" | grep -A1 "^VIOLATION" | head -6 | cut -c1-400
  echo "$out" | grep "HARNESS-ERROR" | head -3 | cut -c1-300
done
