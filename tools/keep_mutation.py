#!/venv/bin/python
"""usage: tools/keep_mutation.py <worktree> <seed-name> <caught_by comma list> [<note>]
copies the confirmed mutation into /verif/seeded/<seed-name>/ (patch.diff, demo.py, meta.json)"""
import json, os, shutil, sys
wt, name, caught = sys.argv[1:4]
note = sys.argv[4] if len(sys.argv) > 4 else ""
m = os.path.join(wt, "_mutation")
d = os.path.join("/verif/seeded", name)
os.makedirs(d, exist_ok=True)
shutil.copy(os.path.join(m, "patch.diff"), os.path.join(d, "patch.diff"))
shutil.copy(os.path.join(m, "demo.py"), os.path.join(d, "demo.py"))
meta = json.load(open(os.path.join(m, "meta.json")))
conf = json.load(open(os.path.join(m, "confirm.json"))) if os.path.exists(os.path.join(m, "confirm.json")) else {}
meta["confirmed_by_us"] = conf
meta["what_we_ran"] = ("tools/confirm_mutation.sh <worktree> (demo with and without the change, repository suite with the change); "
                       "tools/try_mutation.sh seeded/%s/patch.diff quick <checks> (git -C /repo apply; ./check ...; git checkout)" % name)
meta["caught_by_quick_tier_of"] = [c for c in caught.split(",") if c]
meta["note"] = note
json.dump(meta, open(os.path.join(d, "meta.json"), "w"), indent=1)
print("kept", d)
