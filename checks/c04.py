"""C04 — self-referential writes iterate the written function exactly (orbit exploration)."""
from __future__ import annotations

import itertools

from fv import core, explore, gen, lang
from fv.lang import B, I, V

STEPS = {
    "+1": lambda e: B("+", e, I(1)), "-3": lambda e: B("-", e, I(3)), "*3": lambda e: B("*", e, I(3)),
    "%17": lambda e: B("%", e, I(17)), "/2": lambda e: B("/", e, I(2)), "XOR5": lambda e: B("XOR", e, I(5)),
    "<<1": lambda e: B("<<", e, I(1)), "+h": lambda e: B("+", e, V("d")),
    "inc%5": lambda e: B("%", B("+", e, I(1)), I(5)),
    # held inputs of the CELL's own signal type: straight from the input, and computed by a combinator
    "+hm": lambda e: B("+", e, V("hm")),
    "+hk": lambda e: B("+", e, V("hk")),
    # the cell on the RIGHT of the step, another wired signal on the left (own type; other type, projected back)
    "hm+": lambda e: B("+", V("hm"), e),
    "h-": lambda e: ("proj", B("-", V("d"), e), "signal-M"),
}
NSTEPS = {k: (2 if k in ("inc%5", "h-") else 1) for k in STEPS}
CELL = "signal-M"


def mk(chain, form, readers, optimize, first=None):
    e = ("read", "m")
    body = [("mem", "m", CELL)]
    early = {}
    if first == "bare":      # a non-arithmetic reader declared BEFORE the loop's own read
        body.append(("decl", "Signal", "v0", ("read", "m")))
        early["v0"] = "anchor"
    elif first == "arith":
        body.append(("decl", "Signal", "v0", B("*", ("read", "m"), I(2))))
        early["v0"] = "input"
    elif first == "cmp":
        body.append(("decl", "Signal", "v0", B(">", ("read", "m"), I(3))))
        early["v0"] = "input"
    if form == "nested":
        for s in chain:
            e = STEPS[s](e)
        fexpr = e
        # a write value must be of the cell's type: m.read() is, and the left-operand rule keeps it
        body.append(("write", "m", e, None))
    else:
        cur = ("read", "m")
        fexpr = ("read", "m")
        for i, s in enumerate(chain):
            body.append(("decl", "Signal", f"s{i}", STEPS[s](cur)))
            fexpr = STEPS[s](fexpr)
            cur = V(f"s{i}")
        body.append(("write", "m", cur, None))
    rd = dict(early)
    if "arith" in readers:
        body.append(("decl", "Signal", "o1", B("*", ("read", "m"), I(2))))
        rd["o1"] = "input"
    if "cmp" in readers:
        body.append(("decl", "Signal", "o2", B(">", ("read", "m"), I(3))))
        rd["o2"] = "input"
    if "bare" in readers:
        body.append(("decl", "Signal", "o0", ("read", "m")))
        rd["o0"] = "anchor"
    inputs = (["d"] if ("+h" in chain or "h-" in chain) else []) + (["hm"] if ("+hm" in chain or "+hk" in chain or "hm+" in chain) else [])
    if "+hk" in chain:
        body.insert(0, ("decl", "Signal", "hk", B("*", V("hm"), I(2))))
    return {"chain": list(chain), "form": form, "first": first, "readers": rd, "stmts": gen.prog_with_inputs(inputs, body),
            "inputs": inputs, "fexpr": fexpr, "nsteps": sum(NSTEPS[s] for s in chain),
            "opts": {"optimize": optimize}}


class C04(core.Check):
    pid = "C04"
    level = "model_checking"
    timeout = 300
    rule = ("orbit exploration: the emitted circuit is ticked from the all-zero power-on state until its full state "
            "recurs (closure; cap 4096 ticks otherwise, reported) for every chain of 1..3 steps from a 13-step menu (incl. steps with the cell as RIGHT operand), "
            "in nested and step-by-step form, with 1-2 readers, optimised and not, for every held-input valuation; "
            "invariant: one latency L fits r(t+L)=f(r(t)) at every explored tick, at every reader's input; "
            "non-trivial = the cell took more than two different values")
    assumptions = ["circuit model fv/sim.py", "f evaluated by the reference interpreter",
                   "cell observed on the input side of each reader / at the anchor of a bare read"]

    def cases(self, tier):
        names = list(STEPS)
        chains = [(a,) for a in names] + [(a, b) for a in names for b in names]
        three = [("+1", "*3", "%17"), ("+h", "*3", "%17"), ("+hk", "*3", "%17"), ("+hm", "*3", "%17"), ("+1", "+hk", "%17"), ("+1", "XOR5", "%17"), ("*3", "+1", "/2"),
                 ("+1", "<<1", "%17"), ("-3", "*3", "XOR5"), ("inc%5", "+1", "*3"), ("+1", "%17", "+h")]
        if tier == "thorough":
            three = [c for c in itertools.product(names, repeat=3)
                     if c[0] in ("+1", "+h", "inc%5", "-3", "+hk")]
        chains += three
        out = []
        for ch in chains:
            for form in ("nested", "steps"):
                for optimize in (True, False):
                    rds = (["arith"], ["arith", "bare"]) if (len(ch) < 3 or tier == "thorough") else (["arith", "cmp"],)
                    for r in rds:
                        out.append(mk(ch, form, r, optimize))
                    if len(ch) >= 2 and (tier == "thorough" or ch[0] in ("+1", "inc%5")):
                        for first in ("bare", "cmp"):
                            out.append(mk(ch, form, ["arith"], optimize, first=first))
                    if len(ch) == 1 or tier == "thorough" or ch[0] in ("+1", "inc%5"):
                        out.append(mk(ch, form, ["bare"], optimize, first="arith"))
        return out

    def run_case(self, case):
        stmts = gen.thaw(case["stmts"])
        fexpr = gen.thaw(case["fexpr"])
        import itertools as it
        vals = [dict(zip(case["inputs"], v)) for v in it.product((0, 1, 3, -2), repeat=len(case["inputs"]))] if case["inputs"] else [{}]

        def f(x, val):
            env = lang.Env(val)
            lang.run([gen.INPUT_DECL[i] for i in case["inputs"]], env)
            if "hm" in val:
                env.vars["hk"] = lang.Sig(CELL, val["hm"] * 2)
            env.mem_read = lambda m: lang.Sig(CELL, x)
            return lang.val(lang.ev(fexpr, env))

        return explore.run_orbit(stmts, case["inputs"], vals, case["opts"], case["readers"],
                                 explore.key_of(CELL), f, case["nsteps"] + 2)


if __name__ == "__main__":
    core.main_for(C04)
