"""C07 — the printed blueprint string carries the whole circuit (full CLI configuration product)."""
from __future__ import annotations

import base64
import itertools
import json
import os
import subprocess
import sys
import tempfile
import zlib

from fv import canon, core, explore, harness, observe
from fv.corpus import CORPUS as _CORPUS

# C07-local programs: one entity of every kind of circuit-condition support (with / without a circuit_enabled flag)
CORPUS = dict(_CORPUS, **{
    "enable-kinds": ('Signal lv = ("signal-L", 12);\nSignal x = ("signal-X", 2);\nSignal y = ("signal-Y", 5);\n'
                     'Entity p = place("pump", 0, -8);\np.enable = lv < 20;\n'
                     'Entity o = place("offshore-pump", 4, -8);\no.enable = lv >= 3;\n'
                     'Entity s = place("power-switch", 8, -8);\ns.enable = lv != 7;\n'
                     'Entity l = place("small-lamp", 12, -8);\nl.enable = lv == 12;\n'
                     'Entity i = place("inserter", 14, -8);\ni.enable = lv <= 12;\n'
                     'Bundle b = {x, y};\nEntity q = place("pump", 18, -8);\nq.enable = all(b) > 1;\n'
                     'Entity r = place("small-lamp", 22, -8);\nr.enable = any(b) > 4;\n'
                     'Signal z = x + y;\nEntity t = place("pump", 26, -8);\nt.enable = z;\n'),
})
from fv.sim import Circuit

EXPECT = {   # settled named outputs for the values written in the corpus sources
    "arith": {"r1": 17, "r2": -2},
    "cond": {"r": 5, "q": 7},
    "merge": {"twice": 700},
    "bundle": {"s": 4, "an": 1},
    "fan-proj": {"u": 462},
    "fan-proj-items": {"u": 132},
    "same-name-chain": {"b": 72},
    "cmp-same-type": {"lt": 1, "ge": 9},
}


def behaviour(bp):
    """settled value at every output anchor (40 ticks; free-running circuits: the state after 40 ticks)"""
    c = Circuit(bp)
    st = c.initial_state()
    for _ in range(40):
        st = c.tick(st)
    out = {}
    for e in bp["entities"]:
        wt = observe.what(e)
        if "(output anchor)" in wt:
            name = wt.split(" (output anchor)")[0]
            out[name] = observe.by_name(c.at(st, e["entity_number"]))
            if len(out[name]) == 1:
                out[name] = list(out[name].values())[0]
    return out
QUICK_PROGS = ["arith", "cmp-same-type", "cell", "latch-sr", "bundle-member-scalar", "fan-proj", "enable-kinds"]


def decode(text, as_json):
    text = text.strip()
    if as_json:
        return json.loads(text)
    if not text.startswith("0"):
        raise ValueError("blueprint string does not start with version byte '0'")
    return json.loads(zlib.decompress(base64.b64decode(text[1:])))


def completeness_problems(bp):
    probs = []
    for e in bp.get("entities", []):
        cb = e.get("control_behavior") or {}
        wt = observe.what(e)
        if e["name"] == "arithmetic-combinator":
            ac = cb.get("arithmetic_conditions") or {}
            if "output_signal" not in ac or not ("first_signal" in ac or "first_constant" in ac or "second_signal" in ac):
                probs.append(("arithmetic combinator without configuration", wt[:40]))
        elif e["name"] == "decider-combinator":
            dc = cb.get("decider_conditions") or {}
            if not dc.get("conditions") or not dc.get("outputs"):
                probs.append(("decider combinator without conditions/outputs", wt[:40]))
        elif e["name"] == "constant-combinator":
            if "(value=" in wt and "(output anchor)" not in wt:
                try:
                    v = int(wt.split("(value=")[1].split(" ")[0].rstrip(")"))
                except ValueError:
                    continue
                fs = observe.const_filters(e)
                if v != 0 and (len(fs) != 1 or fs[0].get("count") != v):
                    probs.append(("constant combinator does not hold its labelled value", wt[:40]))
    return probs


def plan_wire_problems(plan, bp_obj, decoded):
    """every wire of the compiler's LayoutPlan must be present (as connectivity) in the decoded text and vice
    versa.  Plan entity ids are mapped to entity numbers through the in-memory Blueprint (entity.id, in order)."""
    from fv import geometry
    idmap = {}
    for i, e in enumerate(bp_obj.entities):
        idmap[getattr(e, "id", None)] = i + 1
    names = {e["entity_number"]: e["name"] for e in decoded["entities"]}

    def conn(num, side, colour):
        dual = names.get(num) in geometry.FOUR_CONN
        base = 3 if (dual and side == "output") else 1
        return base + (0 if colour == "red" else 1)
    dec = Circuit.__new__(Circuit)
    dec.parent = {}
    for a, ca, b, cb in decoded.get("wires", []) or []:
        if ca < 5 and cb < 5:
            dec._union((a, ca), (b, cb))
    pl = Circuit.__new__(Circuit)
    pl.parent = {}
    probs = []
    for w_ in plan.wire_connections:
        a, b = idmap.get(w_.source_entity_id), idmap.get(w_.sink_entity_id)
        if a is None or b is None:
            probs.append(("planned wire to an entity that is not in the blueprint", w_.source_entity_id, w_.sink_entity_id))
            continue
        ea, eb = (a, conn(a, w_.source_side, w_.wire_color)), (b, conn(b, w_.sink_side, w_.wire_color))
        pl._union(ea, eb)
        if dec._find(ea) != dec._find(eb):
            probs.append(("planned wire missing from the emitted text", names.get(a), w_.source_side, names.get(b), w_.sink_side, w_.wire_color))
    for a, ca, b, cb in decoded.get("wires", []) or []:
        if ca < 5 and cb < 5 and pl._find((a, ca)) != pl._find((b, cb)):
            probs.append(("emitted wire that joins two planned networks", names.get(a), ca, names.get(b), cb))
    return probs[:6]


CMP = {"==": "=", "!=": "\u2260", ">=": "\u2265", "<=": "\u2264"}


def plan_condition_problems(plan, bp_obj, decoded):
    """every `enable` condition the LayoutPlan carries for an entity (inlined comparison, inlined all()/any(), or a
    signal) must be present in the decoded entity's circuit condition: signal, comparator and constant."""
    idmap = {getattr(e, "id", None): i + 1 for i, e in enumerate(bp_obj.entities)}
    ents = {e["entity_number"]: e for e in decoded["entities"]}
    probs = []
    for pid_, pl in plan.entity_placements.items():
        en = (pl.properties.get("property_writes") or {}).get("enable")
        if not en:
            continue
        e = ents.get(idmap.get(pid_))
        if e is None:
            probs.append(("entity with an enable condition is not in the emitted text", pid_))
            continue
        cc = (e.get("control_behavior") or {}).get("circuit_condition") or {}
        t = en.get("type")
        if t == "inline_comparison":
            cd = en.get("comparison_data") or {}
            want = (cd.get("left_signal"), cd.get("comparator"), cd.get("right_constant"))
        elif t == "inline_bundle_condition":
            want = (en.get("signal"), en.get("operator"), en.get("constant"))
        else:
            want = (None, ">", 0)
        got = ((cc.get("first_signal") or {}).get("name"), cc.get("comparator", "<"), cc.get("constant", 0))
        if not cc:
            probs.append(("planned enable condition missing from the emitted entity", e["name"], str(want)))
        elif (want[0] is not None and isinstance(want[0], str) and got[0] != want[0]) or \
                CMP.get(got[1], got[1]) != CMP.get(want[1], want[1]) or (want[2] or 0) != got[2]:
            probs.append(("emitted circuit condition differs from the planned one", e["name"], str(got), str(want)))
    return probs[:6]


class C07(core.Check):
    pid = "C07"
    level = "exploration"
    timeout = 900
    rule = ("corpus programs x the FULL product {file, -i} x {python -m dsl_compiler, compile.py, console-script entry} x "
            "{string, --json} x {stdout, -o} x {-, --no-optimize} x {-, --power-poles medium} x {-, --name X} (invalid "
            "combinations dropped), each run as a real subprocess; the text must decode, every combinator must carry its "
            "configuration, the canonical circuit (every entity's complete control behaviour + every wire) must equal that "
            "of the planned Blueprint object captured in-process and serialised with the 2.0 format, the string and --json "
            "forms must describe the same blueprint, and executing the decoded text must give the expected outputs; "
            "one case = (program, entry, input mode, optimise, poles) with the 8 combinations of --json / -o / --name; non-trivial = it decoded")
    assumptions = ["planned circuit = the in-memory Blueprint of an in-process compile with the same options",
                   "the seams are injected into the CLI subprocess through sitecustomize (FACTO_VERIF=1)"]

    def cases(self, tier):
        progs = QUICK_PROGS if tier == "quick" else list(CORPUS)
        out = []
        for p in progs:
            for entry in ("module", "compile.py", "console"):
                for inp in ("file", "-i"):
                    if entry == "compile.py" and inp == "-i":
                        continue
                    if tier == "quick" and p not in ("arith", "cell") and (entry, inp) not in (("module", "file"), ("compile.py", "file")):
                        continue
                    for noopt in (False, True):
                        for poles in (False, True):
                            if tier == "quick" and noopt and poles and not (p in ("arith", "cell") and entry == "module"):
                                continue
                            out.append({"program": p, "entry": entry, "input": inp, "noopt": noopt, "poles": poles, "tier": tier})
        return out

    def run_case(self, case):
        src = CORPUS[case["program"]]
        env = dict(os.environ, FACTO_VERIF="1", PYTHONDONTWRITEBYTECODE="1")
        env["PYTHONPATH"] = os.path.join(core.VERIF, "seams") + ":" + harness.REPO
        bad = []
        n = 0
        planned = {}
        pbp_cache = {}
        plan_cache = {}
        planned_beh = {}
        seen_forms = {}
        with tempfile.TemporaryDirectory() as td:
            fp = os.path.join(td, "my_prog.facto")
            open(fp, "w").write(src)
            combos = [(j, o, case["noopt"], case["poles"], nm) for j, o, nm in itertools.product((False, True), repeat=3)]
            for as_json, to_file, noopt, poles, name in combos:
                if case["entry"] == "module":
                    args = [sys.executable, "-m", "dsl_compiler"]
                elif case["entry"] == "compile.py":
                    args = [sys.executable, os.path.join(harness.REPO, "compile.py")]
                else:
                    args = [sys.executable, "-c", "from dsl_compiler.cli import main; main()"]
                args += [fp] if case["input"] == "file" else ["-i", src]
                outp = os.path.join(td, f"out_{n}.txt")
                if as_json:
                    args.append("--json")
                if to_file:
                    args += ["-o", outp]
                if noopt:
                    args.append("--no-optimize")
                if poles:
                    args += ["--power-poles", "medium"]
                if name:
                    args += ["--name", "X Y"]
                tag = " ".join(a for a in args[1:] if a != src and not a.startswith(td))[:120]
                pr = subprocess.run(args, cwd=td, env=env, capture_output=True, text=True, timeout=300)
                n += 1
                if pr.returncode != 0:
                    bad.append((tag, f"exit {pr.returncode}: {pr.stderr[-200:]}"))
                    continue
                text = open(outp).read() if to_file else pr.stdout
                if to_file and pr.stdout.strip():
                    if "blueprint" in pr.stdout:
                        bad.append((tag, "blueprint printed to stdout although -o was given"))
                try:
                    doc = decode(text, as_json)
                    bp = doc["blueprint"]
                except Exception as ex:
                    bad.append((tag, f"does not decode: {type(ex).__name__}: {ex}"))
                    continue
                if name and bp.get("label") != "X Y Blueprint" and "X Y" not in str(bp.get("label")):
                    bad.append((tag, f"--name ignored: label {bp.get('label')!r}"))
                cp = completeness_problems(bp)
                if cp:
                    bad.append((tag, ("incomplete", cp[:3])))
                key = (noopt, poles)
                if key not in planned:
                    harness.compile_src(src, optimize=not noopt, poles="medium" if poles else None)
                    pbp = harness.LAST["blueprint"].to_dict(version=(2, 0))["blueprint"]
                    pbp_cache[key] = pbp
                    plan_cache[key] = (harness.LAST["plan"], harness.LAST["blueprint"])
                    planned[key] = canon.canonical(pbp)
                d, form = canon.canonical(bp)
                if d != planned[key][0]:
                    bad.append((tag, ("differs from the planned circuit", canon.explain_diff(planned[key][1], form))))
                else:
                    wp = plan_wire_problems(plan_cache[key][0], plan_cache[key][1], bp)
                    if wp:
                        bad.append((tag, ("wires differ from the layout plan", wp)))
                    pc = plan_condition_problems(plan_cache[key][0], plan_cache[key][1], bp)
                    if pc:
                        bad.append((tag, ("entity conditions differ from the layout plan", pc)))
                seen_forms.setdefault(key, set()).add(d)
                # executing the decoded text gives the behaviour of the planned circuit: every anchor reads the same
                beh = behaviour(bp)
                if key not in planned_beh:
                    planned_beh[key] = behaviour(pbp_cache[key])
                if beh != planned_beh[key]:
                    bad.append((tag, f"executing the decoded text gives {str(beh)[:120]}, the planned circuit {str(planned_beh[key])[:120]}"))
                exp = EXPECT.get(case["program"])
                if exp and not poles:
                    for o, v in exp.items():
                        if beh.get(o) != v:
                            bad.append((tag, f"executing the decoded text: {o} = {beh.get(o)}, expected {v}"))
            for key, ds in seen_forms.items():
                if len(ds) > 1:
                    bad.append((str(key), "string / --json / -o forms describe different blueprints"))
        res = {"evaluations": n, "compiles": n, "nontrivial": n > 0 and len(bad) < n,
               "sample": {"program": case["program"], "entry": case["entry"], "input": case["input"], "invocations": n}}
        if bad:
            res["status"] = "fail"
            res["digest"] = core.sha([(b[0], str(b[1])[:80]) for b in bad])
            res["detail"] = {"src": src, "first": {"invocation": bad[0][0], "problem": bad[0][1]}, "n_bad": len(bad),
                             "bad_invocations": [b[0] for b in bad][:10]}
        else:
            res["status"] = "pass"
        return res


if __name__ == "__main__":
    core.main_for(C07)
