"""C05 — set/reset latches obey set, reset, hold and the declared priority (explicit-state BFS)."""
from __future__ import annotations

from fv import core, explore, gen, lang
from fv.lang import B, I, V, CMP

RAW_DOM = [0, 1, 5]


def cmp_dom(ks):
    d = [50, 0, 100]
    for k in ks:
        for x in (k - 1, k, k + 1):
            if x not in d:
                d.append(x)
    return d


def mk(family, sexpr, rexpr, order, v, celltype, domains, optimize=True, tag="", early=False):
    if v[0] != "int":
        v = ("proj", v, celltype)      # a signal value must be of the cell's type
    body = [("mem", "l", celltype)]
    if early:     # a reader that stands BEFORE the latch write in the program text
        body.append(("decl", "Signal", "oe", B("*", ("read", "l"), I(3))))
    body += [("latch", "l", v, sexpr, rexpr, order),
             ("decl", "Signal", "o0", ("read", "l")),
             ("decl", "Signal", "o1", B("*", ("read", "l"), I(2)))]
    used = set()
    for e in (sexpr, rexpr, v):
        gen.vars_in(e, used)
    inputs = [n for n in gen.INPUT_DECL if n in used]
    return {"family": family, "tag": tag, "order": order, "stmts": gen.prog_with_inputs(inputs, body),
            "inputs": inputs, "domains": {i: domains[i] for i in inputs}, "outputs": ["o0", "o1"] + (["oe"] if early else []),
            "sexpr": sexpr, "rexpr": rexpr, "v": v, "celltype": celltype, "opts": {"optimize": optimize}}


TWO = {
    # two latches on one shared input / on shared set and reset signals; same and different cell types
    "shared-input": ((B("<", V("x"), I(20)), B(">=", V("x"), I(80)), "sr"), (B(">=", V("x"), I(50)), B("<", V("x"), I(10)), "sr")),
    "same-conditions": ((B("<", V("x"), I(20)), B(">=", V("x"), I(80)), "sr"), (B("<", V("x"), I(20)), B(">=", V("x"), I(80)), "sr")),
    "opposite-priority": ((B("<", V("x"), I(80)), B(">=", V("x"), I(20)), "sr"), (B("<", V("x"), I(80)), B(">=", V("x"), I(20)), "rs")),
    "raw-shared": ((V("s"), V("r"), "sr"), (V("r"), V("s"), "sr")),
    "chained": ((B(">", V("s"), I(0)), B(">", V("t"), I(0)), "sr"), (B(">", ("read", "l1"), I(0)), B(">", V("t"), I(0)), "sr")),
}


def two_latch_cases(tier):
    out = []
    for tag, (l1, l2) in TWO.items():
        for types in (("signal-L", "signal-K"), ("signal-L", "signal-L")):
            body = []
            for cell, (s_, r_, order), ct in (("l1", l1, types[0]), ("l2", l2, types[1])):
                body += [("mem", cell, ct), ("latch", cell, I(1), s_, r_, order)]
            body += [("decl", "Signal", "p1", B("*", ("read", "l1"), I(2))), ("decl", "Signal", "p2", B("*", ("read", "l2"), I(3)))]
            used = set()
            for (s_, r_, _) in (l1, l2):
                gen.vars_in(s_, used)
                gen.vars_in(r_, used)
            inputs = [n for n in gen.INPUT_DECL if n in used]
            dom = {"x": cmp_dom([10, 20, 50, 80]), "s": RAW_DOM, "r": RAW_DOM, "t": RAW_DOM}
            out.append({"family": "two-latches", "tag": f"{tag}/{types[1]}", "order": l1[2] + l2[2], "stmts": gen.prog_with_inputs(inputs, body),
                        "inputs": inputs, "domains": {i: dom[i] for i in inputs}, "outputs": ["p1", "p2"],
                        "l1": list(l1), "l2": list(l2), "types": list(types), "opts": {"optimize": True}})
    return out


def run_two_latches(case):
    stmts = gen.thaw(case["stmts"])
    l1, l2 = gen.thaw(case["l1"]), gen.thaw(case["l2"])
    inputs = case["inputs"]
    decls = [gen.INPUT_DECL[i] for i in inputs]

    def upd(on, S, R, order):
        if S and R:
            return order == "sr"
        if S:
            return True
        if R:
            return False
        return on

    def step(q, val):
        q1, q2 = q
        env = lang.Env(val)
        lang.run(decls, env)
        env.mem_read = lambda m: lang.Sig(None, 1 if q1 else 0)
        n1 = upd(q1, lang.val(lang.ev(l1[0], env)) > 0, lang.val(lang.ev(l1[1], env)) > 0, l1[2])
        env.mem_read = lambda m: lang.Sig(None, 1 if n1 else 0)
        n2 = upd(q2, lang.val(lang.ev(l2[0], env)) > 0, lang.val(lang.ev(l2[1], env)) > 0, l2[2])
        return (n1, n2)

    def ref_step(q, val, event):
        return [step(q or (False, False), val)]

    def ref_expect(q, val):
        return {"p1": lang.Sig(case["types"][0], 2 if q[0] else 0), "p2": lang.Sig(case["types"][1], 3 if q[1] else 0)}
    return explore.run_bfs(stmts, inputs, case["domains"], case["opts"], case["outputs"], None, ref_step, ref_expect)


class C05(core.Check):
    pid = "C05"
    level = "model_checking"
    timeout = 300
    rule = ("explicit-state BFS to closure over events 'set one input to another boundary value, hold until settled' "
            "for every latch program (both argument orders; set/reset as raw signals, as comparisons on one shared "
            "input with every comparator pair and disjoint/touching/overlapping thresholds, or on different inputs; "
            "v = 1, 7 or a signal; readers after the write and, in the early-reader family, also before it); reference latch S&!R->on, R&!S->off, S&R->first named, else hold; "
            "non-trivial = at least two different observations reached")
    assumptions = ["circuit model fv/sim.py (AND binds tighter than OR in multi-condition deciders)",
                   "reference latch as in the property statement"]

    def cases(self, tier):
        out = []
        vs = {"1": I(1), "7": I(7), "d": V("d")}
        for order in ("sr", "rs"):
            # raw signals
            for vn, v in vs.items():
                for ct in ("signal-L", "signal-S", "signal-R"):
                    out.append(mk("raw", V("s"), V("r") if True else None, order, v, ct,
                                  {"s": RAW_DOM, "r": RAW_DOM, "d": [0, 3, -4]}, tag=f"raw/{vn}/{ct}"))
            # comparisons on different inputs
            for vn, v in vs.items():
                out.append(mk("two-inputs", B(">", V("s"), I(0)), B(">", V("t"), I(0)), order, v, "signal-L",
                              {"s": RAW_DOM, "t": RAW_DOM, "d": [0, 3, -4]}, tag=f"two/{vn}"))
                out.append(mk("two-inputs", B("<", V("x"), I(20)), B(">=", V("y"), I(80)), order, v, "signal-L",
                              {"x": cmp_dom([20]), "y": cmp_dom([80]), "d": [0, 3, -4]}, tag=f"two-thr/{vn}"))
            # comparisons on two DIFFERENT inputs that carry the same signal type
            for vn, v in vs.items():
                out.append(mk("two-inputs-same-type", B("<", V("a"), I(20)), B(">=", V("b"), I(80)), order, v, "signal-L",
                              {"a": cmp_dom([20]), "b": cmp_dom([80]), "d": [0, 3, -4]}, tag=f"same-type-thr/{vn}"))
            out.append(mk("two-inputs-same-type", B(">", V("a"), I(0)), B(">", V("b"), I(0)), order, I(1), "signal-A",
                          {"a": RAW_DOM, "b": RAW_DOM}, tag="same-type-cell-type"))
            # comparisons on one shared input (the inlined path)
            for lo, hi in ((20, 80), (50, 50), (80, 20)):
                pairs = [(a, b) for a in CMP for b in CMP] if tier == "thorough" else \
                        [("<", ">="), ("<", ">"), ("<=", ">="), (">", "<"), (">=", "<="), ("==", "!="), ("<", "<"),
                         (">", ">"), ("!=", "=="), ("<=", ">")]
                for cs, cr in pairs:
                    for vn, v in vs.items():
                        if vn != "1" and (cs, cr) not in (("<", ">="), (">", "<")) and tier != "thorough":
                            continue
                        out.append(mk("shared", B(cs, V("x"), I(lo)), B(cr, V("x"), I(hi)), order, v, "signal-L",
                                      {"x": cmp_dom([lo, hi]), "d": [0, 3, -4]}, tag=f"{cs}{lo}/{cr}{hi}/{vn}"))
        # a reader placed before the latch write (standard and inlined latch)
        for order in ("sr", "rs"):
            for vn, v in (("1", I(1)), ("7", I(7))):
                out.append(mk("early-reader", B(">", V("s"), I(0)), B(">", V("t"), I(0)), order, v, "signal-L",
                              {"s": RAW_DOM, "t": RAW_DOM}, tag=f"early/two/{vn}", early=True))
                out.append(mk("early-reader", B("<", V("x"), I(20)), B(">=", V("x"), I(80)), order, v, "signal-L",
                              {"x": cmp_dom([20, 80])}, tag=f"early/shared/{vn}", early=True))
        out += two_latch_cases(tier)
        if tier == "thorough":
            out += [dict(c, opts={"optimize": False}) for c in list(out)]
        return out

    def run_case(self, case):
        if case["family"] == "two-latches":
            return run_two_latches(case)
        stmts = gen.thaw(case["stmts"])
        sexpr, rexpr, v = gen.thaw(case["sexpr"]), gen.thaw(case["rexpr"]), gen.thaw(case["v"])
        inputs = case["inputs"]
        decls = [gen.INPUT_DECL[i] for i in inputs]
        order = case["order"]
        ct = case["celltype"]

        def srv(val):
            env = lang.Env(val)
            lang.run(decls, env)
            return (lang.val(lang.ev(sexpr, env)) > 0, lang.val(lang.ev(rexpr, env)) > 0,
                    lang.val(lang.ev(v, env)))

        def ref_step(on, val, event):
            S, R, _ = srv(val)
            if on is None:
                on = False
            if S and R:
                on = (order == "sr")
            elif S:
                on = True
            elif R:
                on = False
            return [on]

        def ref_expect(on, val):
            _, _, vv = srv(val)
            q = vv if on else 0
            exp = {"o0": lang.Sig(ct, q), "o1": lang.Sig(ct, q * 2)}
            if "oe" in case["outputs"]:
                exp["oe"] = lang.Sig(ct, q * 3)
            return exp

        return explore.run_bfs(stmts, inputs, case["domains"], case["opts"], case["outputs"],
                               None, ref_step, ref_expect)


if __name__ == "__main__":
    core.main_for(C05)
