"""C17 — imports are textual inclusion and the standard library meets its contracts."""
from __future__ import annotations

import json
import os
import subprocess
import sys
import tempfile

from fv import canon, core, explore, gen, harness, lang
from fv.sim import INT_MAX, INT_MIN, w

F = {n: f"func f{n}(Signal s) {{\n    return s * {k} + {k};\n}}\n" for n, k in (("a", 2), ("b", 3), ("c", 5), ("d", 7))}
MAIN_TAIL = 'Signal x = ("signal-X", 4);\n'
GRAPHS = {
    # name -> (files {relpath: (imports, defines)}, main imports, functions used)
    "single": ({"a.facto": ([], "a")}, ["a.facto"], "a"),
    "no-suffix": ({"a.facto": ([], "a")}, ["a"], "a"),
    "chain": ({"a.facto": (["b.facto"], "a"), "b.facto": (["c.facto"], "b"), "c.facto": ([], "c")}, ["a.facto"], "abc"),
    "diamond": ({"a.facto": (["c.facto"], "a"), "b.facto": (["c.facto"], "b"), "c.facto": ([], "c")}, ["a.facto", "b.facto"], "abc"),
    "twice": ({"a.facto": ([], "a")}, ["a.facto", "a.facto"], "a"),
    "cycle": ({"a.facto": (["b.facto"], "a"), "b.facto": (["a.facto"], "b")}, ["a.facto"], "ab"),
    # cycles that pass through the ROOT file (the file given to the compiler)
    "cycle-root": ({"a.facto": (["main.facto"], "a")}, ["a.facto"], "a"),
    "cycle-root-3": ({"a.facto": (["b.facto"], "a"), "b.facto": (["main.facto"], "b")}, ["a.facto"], "ab"),
    "self": ({"a.facto": (["a.facto"], "a")}, ["a.facto"], "a"),
    "subdir": ({"sub/a.facto": (["b.facto"], "a"), "sub/b.facto": ([], "b")}, ["sub/a.facto"], "ab"),
    "subdir-up": ({"sub/a.facto": ([], "a"), "c.facto": (["sub/a.facto"], "c")}, ["c.facto"], "ac"),
    "lib-bare": ({}, ["math.facto"], ""),
    "lib-documented": ({}, ["lib/math.facto"], ""),
    "lib-and-local": ({"a.facto": (["math.facto"], "a")}, ["a.facto", "math.facto"], "a"),
    # the files live in a user library directory that is listed in FACTORIO_IMPORT_PATH (after "."); the entry file
    # u.facto exists only there, its imports name siblings
    "libpath-sibling": ({"u.facto": (["b.facto"], "a"), "b.facto": (["c.facto"], "b"), "c.facto": ([], "c")}, ["u.facto"], "abc"),
    "libpath-subdir": ({"pk/u.facto": (["b.facto"], "a"), "pk/b.facto": ([], "b")}, ["pk/u.facto"], "ab"),
}
LIBPATH = ("libpath-sibling", "libpath-subdir")
DECOY = "func f{n}(Signal s) {{\n    return s * 100 + {k};\n}}\n"


def build_decoys(graph, dd):
    """same-named files with different bodies in the working directory 'decoy' (never the names main itself imports)"""
    files, main_imports, used = GRAPHS[graph]
    for rel, (imps, fn) in files.items():
        if rel in main_imports or rel[:-6] in main_imports:
            continue
        for target in {rel, os.path.basename(rel)}:
            p = os.path.join(dd, target)
            os.makedirs(os.path.dirname(p), exist_ok=True)
            open(p, "w").write(DECOY.format(n=fn, k=100 + ord(fn)))


def build(graph, td, libdir=None):
    files, main_imports, used = GRAPHS[graph]
    for rel, (imps, fn) in files.items():
        p = os.path.join(libdir if graph in LIBPATH else td, rel)
        os.makedirs(os.path.dirname(p), exist_ok=True)
        open(p, "w").write("".join(f'import "{i}";\n' for i in imps) + F[fn])
    body = MAIN_TAIL
    for i, fn in enumerate(used):
        body += f"Signal r{i} = f{fn}(x + {i});\n"
    if graph.startswith("lib-"):
        body += "Signal r9 = abs(x - 9) + max(x, 2);\n"
    if graph == "lib-and-local":
        body += "Signal r8 = min(x, 3);\n"
    main = "".join(f'import "{i}";\n' for i in main_imports) + body
    # pasted twin: every file's text once
    pasted = "".join(F[fn] for fn in sorted(used))
    if "lib-" in graph:
        pasted += open(os.path.join(harness.REPO, "lib", "math.facto")).read() + "\n"
    return main, pasted + body


def canon_sub(path, cwd, as_file=True, timeout=120, import_path=None):
    env = dict(os.environ, PYTHONPATH=f"{core.VERIF}:{harness.REPO}", PYTHONDONTWRITEBYTECODE="1", PYTHONHASHSEED="0")
    env.pop("FACTORIO_IMPORT_PATH", None)
    if import_path:
        env["FACTORIO_IMPORT_PATH"] = import_path
    args = [sys.executable, "-m", "fv.canon_cli", "--src", path, "--cwd", cwd] + (["--as-file"] if as_file else [])
    try:
        pr = subprocess.run(args, env=env, capture_output=True, text=True, timeout=timeout, cwd=core.VERIF)
    except subprocess.TimeoutExpired:
        return {"timeout": True}
    if pr.returncode != 0 or not pr.stdout.strip():
        return {"crash": pr.stderr[-300:]}
    return json.loads(pr.stdout.strip().splitlines()[-1])


# ---- library contracts ---------------------------------------------------------------------
SV = [0, 1, -1, 2, -7, 7, 100, INT_MAX, INT_MIN]


def fits(*xs):
    return all(INT_MIN <= x <= INT_MAX for x in xs)


def need(c):
    if not c:
        raise lang.RefUndefined("documented formula leaves int32 / is undefined here")


def L_abs(x):
    need(fits(-x))
    return abs(x)


def L_lerp(a, b, t):
    need(fits(b - a, (b - a) * t))
    q = abs((b - a) * t) // 100
    q = q if (b - a) * t >= 0 else -q
    need(fits(a + q))
    return a + q


def L_divfloor(a, b):
    need(b != 0 and not (a == INT_MIN and b == -1))
    return a // b


def L_modpos(a, b):
    need(b > 0)
    return a % b


LIB = {
    # name -> (signal params, int param tuples, formula(sigvals..., ints...))
    "abs": (1, [()], lambda x: L_abs(x)),
    "sign": (1, [()], lambda x: (x > 0) - (x < 0)),
    "min": (2, [()], lambda a, b: min(a, b)),
    "max": (2, [()], lambda a, b: max(a, b)),
    "clamp": (1, [(0, 10), (-5, 5), (3, 3), (-100, -7), (INT_MIN, 0), (0, INT_MAX)], lambda x, lo, hi: max(lo, min(hi, x))),
    "between": (1, [(0, 10), (-5, 5), (3, 3), (-7, 100)], lambda x, lo, hi: 1 if lo <= x <= hi else 0),
    "get_bit": (1, [(0,), (1,), (5,), (30,), (31,)], lambda v, p: (v >> p) & 1),
    "set_bit": (1, [(0,), (1,), (5,), (30,)], lambda v, p: w(v | (1 << p))),
    "clear_bit": (1, [(0,), (1,), (5,), (30,)], lambda v, p: w(v & ~(1 << p))),
    "toggle_bit": (1, [(0,), (1,), (5,), (30,)], lambda v, p: w(v ^ (1 << p))),
    "div_floor": (2, [()], L_divfloor),
    "mod_positive": (2, [()], L_modpos),
}
# library functions called from user wrapper functions whose parameter names collide with the library's own
# (a, b, x, value, low, high, t): name -> (wrapper source, call, number of inputs, formula over the inputs x, y[, a])
WRAPPED = {
    "limit": ("func limit(Signal x, Signal a, Signal b) {\n    return min(max(x, a), b);\n}\n", "limit(x, y, a)", 3, lambda x, y, a: min(max(x, y), a)),
    "span": ("func span(Signal b, Signal a) {\n    return max(a, b) - min(b, a);\n}\n", "span(x, y)", 2, lambda x, y: abs(x - y)),
    "absdiff": ("func absdiff(Signal value, Signal x) {\n    return abs(x - value);\n}\n", "absdiff(x, y)", 2, lambda x, y: L_abs(y - x)),
    "clamp-plus": ("func cp(Signal low, Signal x) {\n    return clamp(x, -5, 5) + low;\n}\n", "cp(x, y)", 2, lambda x, y: max(-5, min(5, y)) + x),
    "swapped-div": ("func sw(Signal b, Signal a) {\n    return div_floor(b, a);\n}\n", "sw(x, y)", 2, lambda x, y: L_divfloor(x, y)),
    "swapped-mod": ("func sm(Signal b, Signal a) {\n    return mod_positive(b, a);\n}\n", "sm(x, y)", 2, lambda x, y: L_modpos(x, y)),
    "bit-of": ("func bit5(Signal pos, Signal value) {\n    return get_bit(value, 5) + pos;\n}\n", "bit5(x, y)", 2, lambda x, y: ((y >> 5) & 1) + x),
    "two-level": ("func inner(Signal a, Signal b) {\n    return max(b, a) - a;\n}\nfunc outer(Signal b, Signal a) {\n    return inner(b, a) + min(a, b);\n}\n",
                  "outer(x, y)", 2, lambda x, y: max(y, x) - x + min(y, x)),
}
LERP_INTS = [(0, 100), (10, 20), (100, 0), (-50, 50), (7, 7)]


class C17(core.Check):
    pid = "C17"
    level = "exploration"
    timeout = 600
    rule = ("(a) import graphs over generated files (single, no suffix, chain, diamond, same file twice, cycle, cycles through the root file, self-import, "
            "sub-directories, bundled library by bare name and by the documented 'lib/math.facto' form, library + local, files "
            "in a user library directory listed in FACTORIO_IMPORT_PATH that import their siblings) x "
            "working directories {repository root, /, the importer's directory, an empty directory, a directory holding "
            "same-named decoy files with different bodies} x entry {file, -i for "
            "library-only graphs}: the compilation must terminate and its canonical circuit must equal that of the twin "
            "with the files' text pasted in once; (b) every function of lib/math.facto x the full product of 9 boundary "
            "values per Signal parameter and a menu of int-parameter tuples, compared with the documented formula in "
            "unbounded integers (tuples whose formula leaves int32 are skipped), and eight user wrapper functions whose parameter names collide with the library's (a, b, x, value, low, pos; swapped order; two levels); non-trivial = results vary / imports found")
    assumptions = ["circuit model fv/sim.py", "documented formulas as written in lib/math.facto's comments",
                   "mod_positive is checked for positive moduli only, clamp for low <= high"]

    def cases(self, tier):
        out = []
        for g in GRAPHS:
            for cwd in ("repo", "root", "importer", "empty", "decoy"):
                if cwd == "decoy" and not GRAPHS[g][0]:
                    continue
                out.append({"kind": "import", "graph": g, "cwd": cwd, "entry": "file"})
            if g.startswith("lib-") and g != "lib-and-local":
                for cwd in ("repo", "root", "empty"):
                    out.append({"kind": "import", "graph": g, "cwd": cwd, "entry": "-i"})
        for fn, (ns, ints, _) in LIB.items():
            for it in ints:
                out.append({"kind": "lib", "fn": fn, "ints": list(it)})
        for it in LERP_INTS:
            out.append({"kind": "lib", "fn": "lerp", "ints": list(it)})
        for name in WRAPPED:
            out.append({"kind": "lib", "fn": "wrapped:" + name, "ints": []})
        return out

    def run_case(self, case):
        if case["kind"] == "lib":
            return self.run_lib(case)
        with tempfile.TemporaryDirectory() as td:
            proj = os.path.join(td, "proj")
            os.makedirs(proj)
            os.makedirs(os.path.join(td, "empty"))
            libs = os.path.join(td, "libs")
            os.makedirs(libs)
            os.makedirs(os.path.join(td, "decoy"))
            main, pasted = build(case["graph"], proj, libs)
            build_decoys(case["graph"], os.path.join(td, "decoy"))
            mp = os.path.join(proj, "main.facto")
            open(mp, "w").write(main)
            cwd = {"repo": harness.REPO, "root": "/", "importer": proj, "empty": os.path.join(td, "empty"),
                   "decoy": os.path.join(td, "decoy")}[case["cwd"]]
            ip = ";".join([".", libs, os.path.join(harness.REPO, "lib"), harness.REPO]) if case["graph"] in LIBPATH else None
            got = canon_sub(mp, cwd, as_file=(case["entry"] == "file"), import_path=ip)
            try:
                tw = harness.compile_src(pasted)
            except harness.Rejected as ex:
                return {"status": "harness_error", "error": f"pasted twin rejected: {ex}"}
            td_, tform = canon.canonical(tw)
        res = {"evaluations": 1, "compiles": 2, "nontrivial": True, "sample": {"main": main[:300], "cwd": case["cwd"], "entry": case["entry"]}}
        problem = None
        if got.get("timeout"):
            problem = "compilation did not terminate within 120 s"
        elif "crash" in got:
            problem = f"compiler crashed: {got['crash']}"
        elif "rejected" in got:
            problem = f"import not resolved / program refused: {got['rejected'][:200]}"
        elif got["digest"] != td_:
            problem = ("circuit differs from the pasted twin", canon.explain_diff(tform, got["form"]))
        if problem:
            res["status"] = "fail"
            res["digest"] = core.sha(str(problem)[:60])
            res["detail"] = {"main": main, "cwd": case["cwd"], "entry": case["entry"], "problem": problem}
        else:
            res["status"] = "pass"
        return res

    def run_lib(self, case):
        fn = case["fn"]
        ints = case["ints"]
        if fn.startswith("wrapped:"):
            src, call, nsig, formula = WRAPPED[fn.split(":", 1)[1]]
            names = ["x", "y", "a"][:nsig]
            WV = [0, 1, -1, 7, -8, 100, -100] if nsig == 3 else SV
            stmts = [("text", 'import "math.facto";')] + [gen.INPUT_DECL[i] for i in names] + [("text", src + f"Signal r = {call};")]

            def evaluate_w(v):
                try:
                    val = formula(*[v[i] for i in names])
                except ZeroDivisionError:
                    need(False)
                need(fits(val))
                return {"r": lang.Sig(None, val)}
            return explore.run_stateless(stmts, names, {n: WV for n in names}, ["r"], {"optimize": True}, evaluate=evaluate_w)
        if fn == "lerp":
            call = f"lerp({ints[0]}, {ints[1]}, x)"
            nsig = 1
            formula = lambda t: L_lerp(ints[0], ints[1], t)
            dom = {"x": [0, 1, 25, 50, 100, -10, 150, 7, INT_MAX, INT_MIN]}
        else:
            nsig, _, fml = LIB[fn]
            args = ["x", "y"][:nsig] + [str(i) for i in ints]
            call = f"{fn}({', '.join(args)})"
            formula = lambda *sv: fml(*sv, *ints)
            dom = {n: SV for n in ["x", "y"][:nsig]}
        inputs = ["x", "y"][:nsig]
        stmts = [("text", 'import "math.facto";')] + [gen.INPUT_DECL[i] for i in inputs] + [("text", f"Signal r = {call};")]

        def evaluate(v):
            val = formula(*[v[i] for i in inputs])
            need(fits(val))
            return {"r": lang.Sig(None, val)}
        r = explore.run_stateless(stmts, inputs, dom, ["r"], {"optimize": True}, evaluate=evaluate)
        return r


if __name__ == "__main__":
    core.main_for(C17)
