"""C11 — compile-time arithmetic equals run-time (Factorio) arithmetic."""
from __future__ import annotations

from fv import core, explore, gen, lang
from fv.lang import ARITH, CMP, B, I, V
from fv.sim import INT_MAX, INT_MIN, w

VALUES = [0, 1, -1, 2, 3, -3, 7, -7, 10, -10, 46341, 65536, INT_MAX, INT_MIN, INT_MIN + 1]
SMALL = [0, 1, -1, 3, -7]
SHIFTS = [0, 1, 2, 3, 7, 10, 31]
POWS = [0, 1, 2, 3, 5, 20, 31, 32, 33, 40]
OPS = list(ARITH) + list(CMP) + ["&&", "||"]


def rhs_values(op, full):
    if op in ("<<", ">>"):
        return SHIFTS
    if op == "**":
        return POWS
    return VALUES if full else SMALL


def defined(op, x, y):
    try:
        lang.ev(B(op, I(x), I(y)), lang.Env())
        return True
    except lang.RefUndefined:
        return False


def site_program(site, op, x, ys):
    """Returns (body, outputs, extra_domain) for one batch: fixed x, all y in ys."""
    body, outs = [], []
    dom = {"a": [0, 3]}
    for n, y in enumerate(ys):
        k = B(op, I(x), I(y))
        r = f"r{n}"
        if site == "int-decl":
            body += [("decl", "int", f"k{n}", k), ("decl", "Signal", r, B("+", V("a"), V(f"k{n}")))]
        elif site == "operand":
            body += [("decl", "Signal", r, B("+", V("a"), ("paren", k)))]
        elif site == "operand-left":
            body += [("decl", "Signal", r, B("+", ("paren", k), V("a")))]
        elif site == "typed-literal":
            body += [("decl", "Signal", r, ("lit", "signal-C", k))]     # the literal itself is the result
        elif site == "cmp-rhs":
            body += [("decl", "Signal", r, B(">=", V("a"), ("paren", k)))]
        elif site == "cond-value":
            # (distinct conditions: identical results would be merged by CSE, which is C10's business)
            body += [("decl", "Signal", r, ("cond", B(">", V("a"), I(-n)), ("paren", k)))]
        elif site == "func-arg":
            if n == 0:
                body += [("func", "addn", [("int", "n"), ("Signal", "s")], [], B("+", V("s"), V("n")))]
            body += [("decl", "Signal", r, ("call", "addn", [k, V("a")]))]
        elif site == "func-int-body":
            # ONE function whose body folds a nested constant expression of its int parameter, called once per y
            if n == 0:
                body += [("func", "gb", [("int", "n"), ("Signal", "s")], [], B("+", V("s"), ("paren", B("-", ("paren", B(op, I(x), V("n"))), I(3)))))]
            body += [("decl", "Signal", r, ("call", "gb", [I(y), V("a")]))]
        elif site == "int-chain":
            body += [("decl", "int", f"j{n}", I(x)), ("decl", "int", f"k{n}", B(op, V(f"j{n}"), I(y))),
                     ("decl", "Signal", r, B("*", V("a"), V(f"k{n}")))]
        elif site == "lit-operand":
            body += [("decl", "Signal", r, B("+", B(op, ("lit", "signal-C", I(x)), I(y)), V("a")))]
        elif site == "lit-operand-same-type":
            body += [("decl", "Signal", r, B("+", B(op, ("lit", "signal-A", I(x)), I(y)), V("a")))]
        elif site == "cond-int":
            body += [("decl", "int", f"k{n}", k), ("decl", "Signal", r, ("cond", B(">", V("a"), I(-n)), V(f"k{n}")))]
        elif site == "ir-fold":
            # a constant reaching a Signal parameter is an IR constant: `s op y` is folded by the IR optimiser
            body += [("func", f"h{n}", [("Signal", "s")], [], B(op, V("s"), I(y))),
                     ("decl", "Signal", r, B("+", ("call", f"h{n}", [I(x)]), V("a")))]
        else:
            raise ValueError(site)
        outs.append(r)
    return body, outs, dom


SITES = ["int-decl", "operand", "operand-left", "typed-literal", "cmp-rhs", "cond-value", "cond-int", "func-arg",
         "int-chain", "lit-operand", "lit-operand-same-type", "ir-fold", "func-int-body"]
FULL_SITES = ("int-decl", "operand", "ir-fold")
BATCH = 5


class C11(core.Check):
    pid = "C11"
    level = "exploration"
    timeout = 300
    rule = ("every operator (11 arithmetic/bitwise, 6 comparisons, && ||) x every ordered pair of a 15-value boundary "
            "list (5x5 at the secondary sites; shift counts 0..31, exponents 0..5, INT_MIN/-1 excluded) x every folding "
            "site (int declaration, operand, typed literal, comparison side, ':' value, function argument, nested expression of an int parameter in the body of a function called with several arguments, int chain, "
            "IR-level constant, loop iterator / place coordinate); expected value = Factorio arithmetic (the circuit "
            "model's arith_op, i.e. what the literal-replaced-by-input twin computes), plus the compiled twin itself on "
            "the operand site; one case = one (site, operator, left value) batch of results; non-trivial = results differ")
    assumptions = ["circuit model fv/sim.py arithmetic = Factorio arithmetic", "reference interpreter fv/lang.py"]

    def cases(self, tier):
        out = []
        for site in SITES:
            full = site in FULL_SITES or tier == "thorough"
            for op in OPS:
                if op not in ARITH and site in ("int-decl", "int-chain", "cond-int"):
                    continue    # a comparison of integers is a Signal: `int k = 1 < 2` is (rightly) refused
                if site == "lit-operand-same-type" and op not in ("+", "/", "OR", "<"):
                    continue    # structurally broken on the pinned tree (C11-F3): a small sample is enough
                xs = VALUES if full else SMALL
                for x in xs:
                    ys = [y for y in rhs_values(op, full) if defined(op, x, y)]
                    if not ys:
                        continue
                    for i in range(0, len(ys), BATCH):
                        out.append({"kind": "ref", "site": site, "op": op, "x": x, "ys": ys[i:i + BATCH]})
        # compiled twin (operands replaced by inputs) on the operand site
        for op in OPS:
            for x in (SMALL if tier == "quick" else VALUES):
                ys = [y for y in rhs_values(op, tier != "quick") if defined(op, x, y)]
                for y in ys:
                    out.append({"kind": "twin", "op": op, "x": x, "y": y})
        # coordinates / loop iterators (small results only) and number bases
        for op in ("+", "-", "*", "/", "%", "<<", ">>", "AND", "XOR"):
            for x in (7, -7, 10, -10, 3):
                for y in (2, -2, 3, -3):
                    if op in ("<<", ">>") and y < 0:
                        continue
                    out.append({"kind": "coord", "op": op, "x": x, "y": y})
        out.append({"kind": "bases"})
        # nested constant expressions: an inner result that overflows int32 feeds an operation that is not a
        # homomorphism mod 2^32 (every level must wrap, not only the final value)
        inner = [("+", 2000000000, 2000000000), ("*", 65536, 65536), ("+", INT_MAX, 1), ("-", INT_MIN, 1), ("<<", 3, 31),
                 ("*", 46341, 46341), ("-", 0, INT_MIN), ("*", -65536, 65536), ("+", 7, 3)]
        outer = [("/", 2), ("/", 3), ("%", 7), (">>", 4), ("<", 0), (">", 5), ("==", 0), ("&&", 1), ("/", -1), ("%", -10)]
        for (o1, x, y) in inner:
            for site in ("typed-literal", "operand", "int-decl"):
                out.append({"kind": "nested", "site": site, "inner": [o1, x, y], "outer": [list(o) for o in outer]})
        return out

    def run_case(self, case):
        if case["kind"] == "ref":
            body, outs, dom = site_program(case["site"], case["op"], case["x"], case["ys"])
            stmts = gen.prog_with_inputs(["a"], [gen.thaw(s) for s in body])

            def evaluate(v):   # C11 is about values: the signal name is C01's business
                exp = explore.ref_outputs(stmts, v, outs)
                return {k: lang.Sig(None, x.value) for k, x in exp.items()}
            return explore.run_stateless(stmts, ["a"], dom, outs, {"optimize": True}, evaluate=evaluate)
        if case["kind"] == "nested":
            o1, x, y = case["inner"]
            body, outs = [], []
            for n, (o2, z) in enumerate(case["outer"]):
                k = B(o2, ("paren", B(o1, I(x), I(y))), I(z))
                r = f"r{n}"
                site = case["site"]
                try:
                    lang.ev(k, lang.Env())
                except lang.RefUndefined:
                    continue
                if site == "int-decl" and o2 not in ARITH:
                    continue
                if site == "typed-literal":
                    body.append(("decl", "Signal", r, ("lit", "signal-C", k)))
                elif site == "operand":
                    body.append(("decl", "Signal", r, B("+", V("a"), ("paren", k))))
                else:
                    body += [("decl", "int", f"k{n}", k), ("decl", "Signal", r, B("+", V("a"), V(f"k{n}")))]
                outs.append(r)
            stmts = gen.prog_with_inputs(["a"], [gen.thaw(s) for s in body])

            def evaluate2(v):
                exp = explore.ref_outputs(stmts, v, outs)
                return {k_: lang.Sig(None, x_.value) for k_, x_ in exp.items()}
            return explore.run_stateless(stmts, ["a"], {"a": [0, 3]}, outs, {"optimize": True}, evaluate=evaluate2)
        if case["kind"] == "twin":
            op, x, y = case["op"], case["x"], case["y"]
            A = {"stmts": gen.prog_with_inputs(["a"], [("decl", "Signal", "r", B("+", ("paren", B(op, I(x), I(y))), V("a")))]),
                 "inputs": ["a"], "opts": {"optimize": True}}
            Bs = {"stmts": gen.prog_with_inputs(["a", "x", "y"], [("decl", "Signal", "r", B("+", ("paren", B(op, V("x"), V("y"))), V("a")))]),
                  "inputs": ["a", "x", "y"], "opts": {"optimize": True}, "fixed": {"x": x, "y": y}}
            return explore.run_differential(A, Bs, {"a": [0, 3]}, [("r", "r")], mode="value", compare_entities=False)
        if case["kind"] == "coord":
            op, x, y = case["op"], case["x"], case["y"]
            k = lang.val(lang.ev(B(op, I(x), I(y)), lang.Env()))
            src = (f'int k = {x} {op} {y};\nEntity e1 = place("small-lamp", k, 30);\n'
                   f'Entity e2 = place("small-lamp", {x} {op} {y}, 32);\n'
                   f'for i in [{x}] {{\n  Entity e3 = place("small-lamp", i {op} {y}, 34);\n}}\n')
            from fv import harness
            try:
                bp = harness.compile_src(src)
            except harness.Rejected as ex:
                return {"status": "rejected", "detail": str(ex)[:200]}
            got = sorted((n, tx, ty) for (n, tx, ty, _i) in explore.user_entities(bp))
            want = sorted([("small-lamp", k, 30), ("small-lamp", k, 32), ("small-lamp", k, 34)])
            if got != want:
                return {"status": "fail", "digest": core.sha(got), "detail": {"src": src, "got": got, "want": want}}
            return {"status": "pass", "nontrivial": True, "sample": {"src": src}}
        if case["kind"] == "bases":
            stmts = gen.prog_with_inputs(["a"], [("text", "int k = 0x7FFFFFFF + 0b1;\nSignal r0 = a + k;\n"
                                                           "Signal r1 = a + 0o17 * 0x10;\nSignal r2 = a + 0xFFFF * 0x10001;")])
            def evaluate(v):
                return {"r0": lang.Sig("signal-A", v["a"] + w(0x7FFFFFFF + 1)),
                        "r1": lang.Sig("signal-A", v["a"] + 0o17 * 0x10),
                        "r2": lang.Sig("signal-A", v["a"] + w(0xFFFF * 0x10001))}
            return explore.run_stateless(stmts, ["a"], {"a": [0, 3]}, ["r0", "r1", "r2"], {"optimize": True},
                                         evaluate=evaluate)
        raise ValueError(case)


if __name__ == "__main__":
    core.main_for(C11)
