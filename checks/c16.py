"""C16 — a for loop equals its unrolling (differential against the printed unrolling)."""
from __future__ import annotations

from fv import core, explore, gen, lang
from fv.lang import B, I, V

BODIES = {
    # iterator in a coordinate
    "coord": [("place", "e", "small-lamp", B("+", B("*", V("i"), I(2)), I(10)), I(20), None),
              ("prop", "e", "enable", B(">", V("a"), I(1)))],
    # iterator in arithmetic and in a comparison
    "arith": [("place", "e", "small-lamp", B("+", V("i"), I(10)), I(22), None),
              ("decl", "Signal", "v", B("+", V("a"), V("i"))),
              ("prop", "e", "enable", B(">", B("*", V("v"), I(2)), I(3)))],
    "cmp": [("place", "e", "small-lamp", B("+", V("i"), I(10)), I(24), None),
            ("prop", "e", "enable", B(">", V("a"), V("i")))],
    # iterator as a typed literal value
    "typed": [("place", "e", "small-lamp", B("+", V("i"), I(10)), I(26), None),
              ("decl", "Signal", "k", ("lit", "signal-C", B("*", V("i"), I(3)))),
              ("prop", "e", "enable", B(">", B("+", V("a"), V("k")), I(2)))],
    # iterator projected onto a signal type (documented sugar for a typed literal)
    "proj": [("place", "e", "small-lamp", B("+", V("i"), I(10)), I(27), None),
             ("decl", "Signal", "k", ("proj", V("i"), "signal-C")),
             ("prop", "e", "enable", B(">", B("+", V("a"), V("k")), I(2)))],
    "proj-typeof": [("place", "e", "small-lamp", B("+", V("i"), I(10)), I(29), None),
                    ("decl", "Signal", "k", ("proj", B("*", V("i"), I(2)), ("typeof", "a"))),
                    ("prop", "e", "enable", B(">", B("-", V("a"), V("k")), I(0)))],
    # a condition that is a compile-time constant in every iteration
    "const-cond": [("place", "e", "small-lamp", B("+", V("i"), I(10)), I(31), None),
                   ("prop", "e", "enable", B("<", V("i"), I(1)))],
    "const-cond-mod": [("place", "e", "small-lamp", B("+", V("i"), I(10)), I(33), None),
                       ("prop", "e", "enable", B("==", B("%", B("+", V("i"), I(4)), I(2)), I(1)))],
    # body calling a function
    "call": [("place", "e", "small-lamp", B("+", V("i"), I(10)), I(28), None),
             ("prop", "e", "enable", B(">", ("call", "scale", [V("a"), V("i")]), I(4)))],
}
FUNC = ("func", "scale", [("Signal", "s"), ("int", "n")], [], B("*", V("s"), V("n")))


def mk(it, body, pre=(), tag=""):
    loop = ("for", "i", it, BODIES[body])
    stmts = gen.prog_with_inputs(["a"], list(pre) + ([FUNC] if body == "call" else []) + [loop])
    return {"tag": tag or body, "it": it, "body": body, "stmts": stmts}


class C16(core.Check):
    pid = "C16"
    level = "exploration"
    timeout = 300
    rule = ("every (start, stop, step) in {-3..3}^2 x {-2,-1,1,2,3,omitted}, list iterators, bounds given by int "
            "variables and nested loops x seven body kinds (iterator in coordinate / arithmetic / comparison / typed "
            "literal / projection / projection with .type / function argument); each loop program is compared with its printed unrolling: same multiset of "
            "user entities (prototype, tile) and the same circuit condition at every entity for every input value; "
            "non-trivial = the programs place at least one entity whose condition varies")
    assumptions = ["circuit model fv/sim.py", "unrolling printed from our own AST (fv/lang.unroll)"]

    def cases(self, tier):
        out = []
        rng = range(-3, 4)
        for a in rng:
            for b in rng:
                for s in (None, -2, -1, 1, 2, 3):
                    bodies = list(BODIES) if tier == "thorough" else \
                        (["coord", "cmp", "proj", "const-cond"] if (a + b) % 2 == 0 else ["arith", "typed", "proj-typeof", "const-cond-mod"]) + (["call"] if s in (1, -1) else [])
                    for body in bodies:
                        out.append(mk(("range", a, b, s), body))
        for lst in ([], [4], [3, 1, 2], [-2, 5, 0, 5 - 4]):
            for body in BODIES:
                out.append(mk(("list", lst), body))
        # bounds given by int variables
        for body in ("coord", "cmp"):
            out.append(mk(("range", "lo", "hi", None), body, pre=[("decl", "int", "lo", I(-1)), ("decl", "int", "hi", I(3))], tag="varbounds"))
            out.append(mk(("range", "hi", "lo", "st"), body, pre=[("decl", "int", "lo", I(-1)), ("decl", "int", "hi", I(3)), ("decl", "int", "st", I(-2))], tag="varbounds-step"))
        # bodies that re-bind / use names of the ENCLOSING scope (entity variable, int shadowed by the iterator)
        pre = [("place", "last", "small-lamp", I(0), I(36), None)]
        body = [("prop", "last", "enable", B(">", V("a"), V("i"))), ("replace", "last", "small-lamp", B("*", V("i"), I(2)), I(36))]
        for it in (("range", 1, 4, None), ("list", [3, 5]), ("range", 1, 2, None), ("range", 2, 2, None)):
            stmts = gen.prog_with_inputs(["a"], pre + [("for", "i", it, body), ("prop", "last", "enable", B(">", V("a"), I(9)))])
            out.append({"tag": "rebind-outer-entity", "it": it, "body": "rebind", "stmts": stmts})
        pre2 = [("decl", "int", "n", I(5)), ("place", "e0", "small-lamp", I(0), I(38), None)]
        body2 = [("place", "e", "small-lamp", B("+", V("n"), I(1)), I(38), None), ("prop", "e", "enable", B(">", V("a"), V("n")))]
        stmts = gen.prog_with_inputs(["a"], pre2 + [("for", "n", ("range", 1, 3, None), body2), ("prop", "e0", "enable", B(">", V("a"), V("n")))])
        out.append({"tag": "iterator-shadows-outer-int", "it": "n in 1..3", "body": "shadow", "stmts": stmts})
        # nested loops
        nest_body = [("place", "e", "small-lamp", B("+", B("*", V("i"), I(4)), V("j")), B("+", I(30), V("i")), None),
                     ("prop", "e", "enable", B(">", V("a"), B("+", V("i"), V("j"))))]
        for (a, b, s), (c, d, t) in (((0, 3, None), (0, 2, None)), ((2, -1, -1), (0, 3, 2)), ((0, 2, None), (1, 1, None))):
            stmts = gen.prog_with_inputs(["a"], [("for", "i", ("range", a, b, s), [("for", "j", ("range", c, d, t), nest_body)])])
            out.append({"tag": "nested", "it": [a, b, s, c, d, t], "body": "nested", "stmts": stmts})
        if tier == "thorough":
            inner = [("place", "e", "small-lamp", B("+", B("+", B("*", V("i"), I(9)), B("*", V("j"), I(3))), V("k")), I(40), None),
                     ("prop", "e", "enable", B(">", V("a"), B("*", V("i"), B("+", V("j"), V("k")))))]
            stmts = gen.prog_with_inputs(["a"], [("for", "i", ("range", 0, 2, None), [("for", "j", ("range", 2, 0, -1), [("for", "k", ("list", [0, 2]), inner)])])])
            out.append({"tag": "nested3", "it": "3-deep", "body": "nested3", "stmts": stmts})
        return out

    def run_case(self, case):
        stmts = gen.thaw(case["stmts"])
        twin = lang.unroll(stmts)
        A = {"stmts": stmts, "inputs": ["a"], "opts": {"optimize": True}}
        Bt = {"stmts": twin, "inputs": ["a"], "opts": {"optimize": True}}
        return explore.run_differential(A, Bt, {"a": [0, 1, 2, 3, 5, -4, 9]}, [], mode="value")


if __name__ == "__main__":
    core.main_for(C16)
