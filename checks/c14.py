"""C14 — ill-formed programs are rejected and produce no blueprint."""
from __future__ import annotations

import base64
import json
import os
import subprocess
import sys
import tempfile
import zlib

from fv import core, harness

CONSTRUCTS = {
    # rule group -> (source lines, keywords one of which must appear in the message (lower case))
    "undef-var": ('Signal z1 = nope + 1;', ["nope", "undefined"]),
    "undef-func": ('Signal z1 = nofunc(3);', ["nofunc", "undefined"]),
    "undef-mem-read": ('Signal z1 = nomem.read();', ["nomem", "undefined"]),
    "undef-mem-write": ('nomem.write(3);', ["nomem", "undefined"]),
    "undef-entity": ('noent.enable = 1;', ["noent", "undefined"]),
    "redefine": ('Signal z1 = 1;\nSignal z1 = 2;', ["z1", "already", "redefin"]),
    "redefine-mem": ('Memory zm: "signal-A";\nMemory zm: "signal-B";', ["zm", "already", "redefin"]),
    "assign-immutable": ('Signal z1 = 1;\nz1 = z1 + 1;', ["z1", "immutable", "assign"]),
    "wrong-kind-entity": ('Entity z1 = 42;', ["entity", "z1", "assign"]),
    "wrong-kind-int": ('Signal z0 = ("signal-A", 1);\nint z1 = z0;', ["int", "z1"]),
    "wrong-kind-signal": ('Bundle zb = {("signal-A", 1)};\nSignal z1 = zb;', ["bundle", "z1", "signal"]),
    "wrong-kind-param": ('func zf(Signal p) {\n return p + 1;\n}\nEntity ze = place("small-lamp", 50, 50);\nSignal z1 = zf(ze);', ["zf", "argument", "entity", "type"]),
    "argcount": ('func zf(Signal p) {\n return p + 1;\n}\nSignal z1 = zf(1, 2);', ["zf", "argument"]),
    "recursion": ('func zr(Signal p) {\n return zr(p) + 1;\n}\nSignal z1 = zr(1);', ["recurs", "zr"]),
    "indirect-recursion": ('func zr1(Signal p) {\n return zr2(p);\n}\nfunc zr2(Signal p) {\n return zr1(p);\n}\nSignal z1 = zr1(1);', ["recurs", "zr1", "zr2"]),
    "dup-bundle": ('Bundle zb = {("signal-A", 1), ("signal-A", 2)};', ["duplicate", "signal-a"]),
    "dup-bundle-nested": ('Bundle zb = {("signal-A", 1), ("signal-B", 2)};\nBundle zq = {zb, ("signal-A", 3)};', ["duplicate", "signal-a"]),
    "dup-bundle-nested-first": ('Bundle zb = {("signal-A", 1)};\nBundle zq = {("signal-A", 3), zb};', ["duplicate", "signal-a"]),
    "dup-bundle-two-nested": ('Bundle zb = {("signal-A", 1)};\nBundle zc = {("signal-B", 2), ("signal-A", 5)};\nBundle zq = {zb, zc};', ["duplicate", "signal-a"]),
    "dup-bundle-vars": ('Signal zs = ("signal-A", 1);\nSignal zt = ("signal-A", 2);\nBundle zq = {zs, zt};', ["duplicate", "signal-a"]),
    "bundle-op-bundle": ('Bundle zb = {("signal-A", 1)};\nBundle zc = {("signal-B", 1)};\nBundle zd = zb + zc;', ["bundle"]),
    "bare-bundle-cmp": ('Bundle zb = {("signal-A", 1)};\nSignal z1 = zb > 0;', ["bundle", "any", "all"]),
    "select-absent": ('Bundle zb = {("signal-A", 1)};\nSignal z1 = zb["signal-Z"] + 0;', ["signal-z"]),
    "unknown-signal": ('Signal z1 = ("no-such-signal", 1);', ["no-such-signal", "unknown"]),
    "reserved-literal": ('Signal z1 = ("signal-W", 1);', ["signal-w", "reserved"]),
    "reserved-projection": ('Signal z0 = 1;\nSignal z1 = z0 | "signal-W";', ["signal-w", "reserved"]),
    "reserved-memory": ('Memory zm: "signal-W";', ["signal-w", "reserved"]),
    "reserved-bundle-select": ('Bundle zb = {("signal-A", 1)};\nSignal z1 = zb["signal-W"] + 0;', ["signal-w", "reserved"]),
    "reserved-bundle-member": ('Bundle zb = {("signal-W", 1)};', ["signal-w", "reserved"]),
    "write-type-mismatch": ('Memory zm: "signal-A";\nzm.write(("signal-B", 1));', ["signal-a", "signal-b", "mismatch"]),
    "second-write": ('Memory zm: "signal-A";\nzm.write(("signal-A", 1));\nzm.write(("signal-A", 2));', ["zm", "write", "multiple", "already"]),
    "zero-step": ('for zi in 0..3 step 0 {\n Signal zq = zi + 1;\n}', ["step", "zero"]),
    "noncmp-before-colon": ('Signal z0 = ("signal-A", 1);\nSignal z1 = (z0 + 1) : 5;', ["comparison", ":"]),
    "noncmp-ident-before-colon": ('Signal z0 = ("signal-A", 1);\nSignal z1 = z0 : 5;', ["comparison", ":"]),
    "noncmp-before-colon-after-compare": ('Signal z0 = ("signal-A", 1);\nSignal zc = z0 > 3;\nSignal zd = 2 < z0;\nSignal z1 = z0 : 5;', ["comparison", ":"]),
    "noncmp-untyped-after-compare": ('Signal z0 = 4;\nSignal zc = (z0 >= 3) : 2;\nSignal z1 = z0 : 5;', ["comparison", ":"]),
    "syntax": ('Signal z1 = 1 +;', ["parse", "syntax", "unexpected"]),
}
# constructs whose violation depends on WHICH symbol a name resolves to: (outer declaration of the same name with a kind for
# which the last statement would be legal, a legal use of that outer name). Embedding "shadow/*": the body first uses the
# outer name, then the construct legally shadows it and violates the rule on the LOCAL symbol.
SHADOW = {
    "assign-immutable": ('Entity z1 = place("small-lamp", 60, 60);', 'z1.enable = a > 0;'),
    "wrong-kind-int": ('int z0 = 3;', 'Signal zuse = a + z0;'),
    "wrong-kind-signal": ('Signal zb = ("signal-C", 1);', 'Signal zuse = zb + 1;'),
    "dup-bundle-vars": ('Signal zt = ("signal-B", 2);', 'Signal zuse = zt + 1;'),
    "bundle-op-bundle": ('Signal zc = ("signal-C", 2);', 'Signal zuse = zc + 1;'),
    "write-type-mismatch": ('Memory zm: "signal-B";', 'Signal zuse = zm.read() + 1;'),
    "bare-bundle-cmp": ('Signal zb = ("signal-C", 1);', 'Signal zuse = zb > 0;'),
    "select-absent": ('Bundle zb = {("signal-Z", 1), ("signal-A", 2)};', 'Signal zuse = zb["signal-Z"] + 0;'),
}
BENIGN = 'Signal zok = ("signal-Z", 1);\nSignal zok2 = zok + 1;'
BASES = {
    "arith": ['Signal a = ("signal-A", 3);', 'Signal b = a * 2 + 1;', 'Signal c = (a > 2) : b;'],
    "memory": ['Signal t = ("signal-T", 1);', 'Memory m: "signal-M";', 'm.write(m.read() + 1, when=t > 0);', 'Signal o = m.read();'],
    "entity": ['Signal a = ("signal-A", 3);', 'Entity lamp = place("small-lamp", 20, 20);', 'lamp.enable = a > 2;',
               'Bundle bb = {a, ("signal-B", 2)};', 'Bundle cc = bb * 2;'],
}


def contexts(has_func, cname=None):
    """(tag, builder) pairs; builder(text) -> program source."""
    out = []
    for bname, lines in BASES.items():
        for pos in range(len(lines) + 1):
            out.append((f"top/{bname}/{pos}", lambda t, lines=lines, pos=pos: "\n".join(lines[:pos] + [t] + lines[pos:]) + "\n"))
    base = "\n".join(BASES["arith"]) + "\n"
    # the construct's statements separated by valid scope-opening constructs (function with a loop, nested loops)
    SEP = {
        "func-with-loop": "func zsep(Signal w) {\n for zq in 0..2 {\n  Signal zt = w + zq;\n }\n return w + 1;\n}\nSignal zsepuse = zsep(a);\n",
        "nested-loops": "for zi in 0..2 {\n for zj in 0..2 {\n  Signal zt = zi + zj + a;\n }\n}\n",
        "loop-calling-func-with-loop": "func zsep2(Signal w) {\n for zq in [1, 2] {\n  Signal zt = w * zq;\n }\n return w;\n}\nfor zi in 0..2 {\n Signal zu = zsep2(a + zi);\n}\n",
    }

    def split(t, sep):
        parts = split_top_level(t)
        if len(parts) < 2:
            return base + sep + t + "\n"
        return base + "\n".join(parts[:-1]) + "\n" + sep + parts[-1] + "\n"
    for sname, sep in SEP.items():
        out.append((f"split/{sname}", lambda t, sep=sep: split(t, sep)))
    if cname in SHADOW:
        outer, use = SHADOW[cname]

        def ind(t, n=1):
            return "\n".join(" " * n + ln for ln in t.splitlines())
        out.append(("shadow/loop", lambda t: base + outer + "\nfor zj in 0..2 {\n" + ind(use) + "\n" + ind(t) + "\n}\n"))
        out.append(("shadow/func", lambda t: base + outer + "\nfunc zwrap(Signal w) {\n" + ind(use) + "\n" + ind(t) + "\n return w + 1;\n}\nSignal used0 = zwrap(a);\n"))
        out.append(("shadow/nested-loop", lambda t: base + outer + "\nfor zj in 0..2 {\n" + ind(use) + "\n for zk in 0..2 {\n" + ind(t, 2) + "\n }\n}\n"))
    if has_func:
        return out

    def infunc(calls):
        def b(t):
            body = "\n".join(" " + ln for ln in t.splitlines())
            s = base + "func zwrap(Signal w) {\n" + body + "\n return w + 1;\n}\n"
            for i in range(calls):
                s += f"Signal used{i} = zwrap(a + {i});\n"
            return s
        return b
    out.append(("func/called-once", infunc(1)))
    out.append(("func/called-twice", infunc(2)))
    out.append(("func/never-called", infunc(0)))
    for n in (1, 3):
        out.append((f"loop/{n}", lambda t, n=n: base + f"for zj in 0..{n} {{\n" + "\n".join(" " + ln for ln in t.splitlines()) + "\n}\n"))
    out.append(("loop-list/2", lambda t: base + "for zj in [5, 7] {\n" + "\n".join(" " + ln for ln in t.splitlines()) + "\n}\n"))
    out.append(("nested-loop", lambda t: base + "for zj in 0..2 {\n for zk in 0..1 {\n" + "\n".join("  " + ln for ln in t.splitlines()) + "\n }\n}\n"))

    def func_in_loop(t):
        body = "\n".join(" " + ln for ln in t.splitlines())
        return base + "func zwrap(Signal w) {\n" + body + "\n return w + 1;\n}\nfor zj in 0..2 {\n Signal zz = zwrap(a + zj);\n}\n"
    out.append(("func-in-loop", func_in_loop))
    out.append(("after-valid-use", lambda t: base + "Signal z9 = b + c;\n" + t + "\nSignal z8 = z9 * 2;\n"))
    return out


def split_top_level(text):
    """top-level statements of a construct (brace-balanced)"""
    parts, cur, depth = [], [], 0
    for ln in text.splitlines():
        cur.append(ln)
        depth += ln.count("{") - ln.count("}")
        if depth == 0:
            parts.append("\n".join(cur))
            cur = []
    if cur:
        parts.append("\n".join(cur))
    return parts


def looks_like_blueprint(text):
    text = text.strip()
    for tok in text.split():
        if tok.startswith("0") and len(tok) > 20:
            try:
                json.loads(zlib.decompress(base64.b64decode(tok[1:])))
                return True
            except Exception:
                pass
    if "{" in text:
        try:
            d = json.loads(text[text.index("{"):])
            if isinstance(d, dict) and ("blueprint" in d or "entities" in d):
                return True
        except Exception:
            pass
    return '"blueprint"' in text and '"entities"' in text


class C14(core.Check):
    pid = "C14"
    level = "exploration"
    timeout = 120
    rule = ("every violating construct (31 constructs for the 17 documented rule groups, each self-contained) x every "
            "embedding (every statement position of three accepted base programs; inside a function called once / twice "
            "/ never; inside loop bodies with 1, 2 and 3 iterations and nested loops; inside a function called from a loop; "
            "between valid uses; after a use of an outer name that the construct then legally shadows (loop, function, nested loop; 8 symbol-dependent constructs); with the construct's own statements separated by a function containing a loop / nested loops); the compiler must raise or return success=False with a message naming the problem, and "
            "(CLI cases) exit non-zero printing nothing that decodes as a blueprint; every embedding is first shown to be "
            "accepted with a benign statement in place of the construct; non-trivial = the control program was accepted")
    assumptions = ["the benign control statement makes every embedding an accepted program",
                   "zero-iteration loop bodies are not part of the alphabet (C16)"]

    def cases(self, tier):
        out = []
        for cname, (text, kw) in CONSTRUCTS.items():
            has_func = "func " in text
            for tag, _ in contexts(has_func, cname):
                out.append({"construct": cname, "context": tag, "via": "api"})
            out.append({"construct": cname, "context": "top/arith/3", "via": "cli-file"})
            if tier == "thorough":
                out.append({"construct": cname, "context": "top/arith/0", "via": "cli-i"})
                out.append({"construct": cname, "context": "top/arith/3", "via": "cli-json"})
                if not has_func:
                    out.append({"construct": cname, "context": "func/called-once", "via": "cli-file"})
                    out.append({"construct": cname, "context": "loop/3", "via": "cli-i"})
        return out

    def run_case(self, case):
        text, kws = CONSTRUCTS[case["construct"]]
        build = dict(contexts("func " in text, case["construct"]))[case["context"]]
        bad_src = build(text)
        ok_src = build(BENIGN)
        if case["context"].startswith("shadow/"):
            # control: the construct without its last (violating) statement, i.e. the legal shadowing alone
            ok_src = build("\n".join(split_top_level(text)[:-1]))
        try:
            harness.compile_src(ok_src)
        except harness.Rejected as ex:
            return {"status": "harness_error", "error": f"control program rejected in {case['context']}: {ex}"}
        res = {"evaluations": 1, "nontrivial": True, "sample": {"src": bad_src[:400]}}
        if case["via"] == "api":
            try:
                harness.compile_src(bad_src)
            except harness.Rejected as ex:
                msg = str(ex).lower()
                if not any(k in msg for k in kws) and case["construct"] != "syntax":
                    res.update(status="fail", digest=core.sha(["unnamed", msg[:80]]),
                               detail={"src": bad_src, "problem": "rejected, but the message does not name the problem", "message": str(ex)[:300]})
                    return res
                res["status"] = "pass"
                return res
            res.update(status="fail", digest=core.sha(["accepted"]), detail={"src": bad_src, "problem": "ACCEPTED: a blueprint was produced"})
            return res
        # real CLI
        env = dict(os.environ, PYTHONPATH=harness.REPO, FACTO_VERIF="1")
        env["PYTHONPATH"] = os.path.join(core.VERIF, "seams") + ":" + harness.REPO
        with tempfile.TemporaryDirectory() as td:
            args = [sys.executable, "-m", "dsl_compiler"]
            if case["via"] == "cli-i":
                args += ["-i", bad_src]
            else:
                p = os.path.join(td, "prog.facto")
                open(p, "w").write(bad_src)
                args += [p]
            if case["via"] == "cli-json":
                args += ["--json"]
            pr = subprocess.run(args, cwd=td, env=env, capture_output=True, text=True, timeout=100)
        problems = []
        if pr.returncode == 0:
            problems.append("exit status 0")
        if looks_like_blueprint(pr.stdout):
            problems.append("stdout contains a blueprint")
        if problems:
            res.update(status="fail", digest=core.sha(problems), detail={"src": bad_src, "problem": problems, "stderr": pr.stderr[-300:]})
        else:
            res["status"] = "pass"
        return res


if __name__ == "__main__":
    core.main_for(C14)
