"""C09 — user-placed entities appear once, where and how the program says."""
from __future__ import annotations

from fv import core, explore, geometry, harness

DEVS = [None, ("stretch-x", 3), ("mirror-x",), ("no-solution",), ("push", 0, 25), ("lower-out", 4)]


def props_of(e):
    cb = e.get("control_behavior", {}) or {}
    out = {}
    # every top-level static field of the exported entity (bar, station, manual_trains_limit, override_stack_size, direction, ...);
    # a field that is present is reported even when its value is 0 (0 is meaningful: `bar: 0` blocks every slot)
    for k, v in e.items():
        if k in ("entity_number", "name", "position", "control_behavior", "always_on", "tags", "player_description"):
            continue
        out[k] = v if isinstance(v, (int, str)) and not isinstance(v, bool) else repr(v)
    if e.get("always_on"):
        out["always_on"] = 1
    if cb.get("use_colors"):
        out["use_colors"] = 1
    if cb.get("color_mode"):
        out["color_mode"] = cb["color_mode"]
    return tuple(sorted(out.items()))


def programs(tier):
    """(tag, source, expected list of (proto, x, y, props))"""
    P = []
    P.append(("literal", 'Entity e = place("small-lamp", 3, -7);\n', [("small-lamp", 3, -7, ())]))
    P.append(("negative", 'Entity e = place("small-lamp", -12, -9);\nEntity f = place("inserter", -1, -1);\n',
              [("small-lamp", -12, -9, ()), ("inserter", -1, -1, ())]))
    P.append(("intvar", 'int px = 7;\nint py = -4 * 3;\nEntity e = place("small-lamp", px, py);\nEntity f = place("small-lamp", px + 2, py - 1);\n',
              [("small-lamp", 7, -12, ()), ("small-lamp", 9, -13, ())]))
    P.append(("multi-tile", 'Entity a = place("pump", 0, -20);\nEntity b = place("train-stop", 4, -20, {station: "Iron Pickup"});\n'
              'Entity c = place("assembling-machine-1", 8, -20);\nEntity d = place("storage-tank", 14, -20);\nEntity s = place("substation", 20, -20);\n',
              [("pump", 0, -20, ()), ("train-stop", 4, -20, (("station", "Iron Pickup"),)), ("assembling-machine-1", 8, -20, ()),
               ("storage-tank", 14, -20, ()), ("substation", 20, -20, ())]))
    P.append(("user-poles", 'Signal a = ("signal-A", 3);\nEntity l1 = place("small-lamp", 0, -5);\nl1.enable = a > 2;\nEntity l2 = place("small-lamp", 30, -5);\nl2.enable = a > 1;\n'
              'for i in 1..5 {\n  Entity p = place("medium-electric-pole", i * 6, -9);\n}\nEntity q = place("small-electric-pole", 15, -14);\nEntity s = place("substation", 40, -20);\n',
              [("small-lamp", 0, -5, ()), ("small-lamp", 30, -5, ())] + [("medium-electric-pole", i * 6, -9, ()) for i in range(1, 5)] +
              [("small-electric-pole", 15, -14, ()), ("substation", 40, -20, ())]))
    P.append(("props", 'Entity l = place("small-lamp", 5, -6, {use_colors: 1, always_on: 1, color_mode: 1});\nEntity m = place("small-lamp", 7, -6);\n',
              [("small-lamp", 5, -6, (("always_on", 1), ("color_mode", 1), ("use_colors", 1))), ("small-lamp", 7, -6, ())]))
    P.append(("wired", 'Signal a = ("signal-A", 3);\nEntity l = place("small-lamp", 5, -6);\nl.enable = a > 2;\nEntity m = place("small-lamp", 45, -6);\nm.enable = a * 2 > 3;\n'
              'Entity c = place("steel-chest", 25, -30);\nSignal s = c.output["iron-plate"] + a;\n',
              [("small-lamp", 5, -6, ()), ("small-lamp", 45, -6, ()), ("steel-chest", 25, -30, ())]))
    # coordinates that are arithmetic on int variables whose initialisers are expressions, incl. operands equal to 0
    P.append(("computed-origin", 'int cols = 5;\nint x0 = cols * 3 - 14;\nint y0 = 0 - cols - 3;\nint zero = cols - 5;\n'
              'for i in 0..4 {\n  for j in 0..3 {\n    Entity l = place("small-lamp", x0 + i, y0 - j * 2, {color_mode: 1});\n  }\n}\n'
              'Entity c = place("steel-chest", zero + 8, zero - 4);\nEntity d = place("inserter", zero, y0 * zero - 2);\n',
              [("small-lamp", 1 + i, -8 - j * 2, (("color_mode", 1),)) for i in range(4) for j in range(3)] +
              [("steel-chest", 8, -4, ()), ("inserter", 0, -2, ())]))
    P.append(("zero-operands", 'int z = 3 - 3;\nint k = 4;\nEntity a1 = place("small-lamp", z + k, z - 9);\nEntity a2 = place("small-lamp", k * z + 2, k - k - 7);\n'
              'Entity a3 = place("small-lamp", z, 0 - k);\nfor i in 0..2 {\n  Entity l = place("inserter", i * k, i - 12);\n}\n',
              [("small-lamp", 4, -9, ()), ("small-lamp", 2, -7, ()), ("small-lamp", 0, -4, ()), ("inserter", 0, -12, ()), ("inserter", 4, -11, ())]))
    # arguments that mention caller names equal to the callee's parameter names
    P.append(("func-arg-names", 'func lamp_at(int x, int y) {\n    Entity l = place("small-lamp", x, y);\n    return 0;\n}\n'
              'func mirror_pair(int x, int y) {\n    Signal k1 = lamp_at(y, x);\n    Signal k2 = lamp_at(x + 1, y + x);\n    return 0;\n}\n'
              'int x = 20;\nint y = -9;\nSignal z1 = lamp_at(y, x);\nSignal z2 = mirror_pair(3, -4);\nSignal z3 = lamp_at(x + 2, y);\n',
              [("small-lamp", -9, 20, ()), ("small-lamp", -4, 3, ()), ("small-lamp", 4, -1, ()), ("small-lamp", 22, -9, ())]))
    for n in (2, 9, 120):
        P.append((f"loop-{n}", f'Signal a = ("signal-A", 3);\nfor i in 0..{n} {{\n    Entity l = place("small-lamp", i, -6);\n    l.enable = a > i;\n}}\n',
                  [("small-lamp", i, -6, ()) for i in range(n)]))
    P.append(("loop-step-neg", 'for i in 10..0 step -3 {\n    Entity l = place("small-lamp", i * 2, 0 - i);\n}\n',
              [("small-lamp", i * 2, -i, ()) for i in (10, 7, 4, 1)]))
    P.append(("nested", 'for i in 0..4 {\n  for j in 0..3 {\n    Entity l = place("small-lamp", i * 2, -10 - j * 2);\n  }\n}\n',
              [("small-lamp", i * 2, -10 - j * 2, ()) for i in range(4) for j in range(3)]))
    P.append(("func", 'func mk(int x, int y) {\n    Entity l = place("small-lamp", x, y);\n    return l;\n}\nEntity a1 = mk(1, -5);\nEntity a2 = mk(3, -5);\n'
              'func row(int y) {\n    for i in 0..3 {\n        Entity q = place("inserter", i, y);\n    }\n    return 0;\n}\nSignal z1 = row(-8);\nSignal z2 = row(-9);\n',
              [("small-lamp", 1, -5, ()), ("small-lamp", 3, -5, ())] + [("inserter", i, y, ()) for y in (-8, -9) for i in range(3)]))
    # round 5: every integer operator in a coordinate, a placing function called from a loop with iterator arguments,
    # one Entity variable re-bound by consecutive statements
    P.append(("arith-ops", 'int k = 3;\nEntity a1 = place("small-lamp", 2 ** k, 0 - (1 << k));\nEntity a2 = place("small-lamp", 17 / k, 0 - 17 % k - 1);\n'
              'Entity a3 = place("small-lamp", 6 AND k, 0 - (6 OR 1));\nEntity a4 = place("inserter", 6 XOR k, 0 - (40 >> k));\nEntity a5 = place("inserter", (k + 1) * (k - 1), 0 - k * k - k);\n',
              [("small-lamp", 8, -8, ()), ("small-lamp", 5, -3, ()), ("small-lamp", 2, -7, ()), ("inserter", 5, -5, ()), ("inserter", 8, -12, ())]))
    P.append(("func-in-loop", 'func lamp_at(int x, int y) {\n    Entity l = place("small-lamp", x, y);\n    return 0;\n}\n'
              'for i in 0..3 {\n    for j in [5, 9] {\n        Signal z = lamp_at(i * 2 + j, 0 - j - i);\n    }\n}\n',
              [("small-lamp", i * 2 + j, -j - i, ()) for i in range(3) for j in (5, 9)]))
    P.append(("rebinding", 'Entity e = place("small-lamp", 1, -5);\nEntity f = place("small-lamp", 3, -5);\nEntity g = place("inserter", 5, -5);\n'
              'Entity h = place("small-lamp", 7, -5, {always_on: 1});\nEntity k = place("small-lamp", 7, -7, {always_on: 1});\n',
              [("small-lamp", 1, -5, ()), ("small-lamp", 3, -5, ()), ("inserter", 5, -5, ()), ("small-lamp", 7, -5, (("always_on", 1),)),
               ("small-lamp", 7, -7, (("always_on", 1),))]))
    # static properties whose value is 0 (literal, computed, or the first iteration of a loop) next to non-zero ones
    P.append(("zero-props", 'for i in 0..4 {\n    Entity ch = place("steel-chest", i * 2, -10, {bar: i});\n}\n'
              'Entity st = place("train-stop", -6, -16, {manual_trains_limit: 0, station: "Depot"});\nEntity s2 = place("train-stop", 6, -16, {manual_trains_limit: 2, station: "Mine"});\n'
              'Entity ins = place("inserter", 3, -6, {override_stack_size: 0});\nEntity in2 = place("inserter", 5, -6, {override_stack_size: 3});\n',
              [("steel-chest", i * 2, -10, (("bar", i),)) for i in range(4)] +
              [("train-stop", -6, -16, (("manual_trains_limit", 0), ("station", "Depot"))), ("train-stop", 6, -16, (("manual_trains_limit", 2), ("station", "Mine"))),
               ("inserter", 3, -6, (("override_stack_size", 0),)), ("inserter", 5, -6, (("override_stack_size", 3),))]))
    big = [(500, 20), (501, 20)] + ([(1001, 40)] if tier == "thorough" else [])
    for n, w in big:
        P.append((f"grid-{n}", f'for i in 0..{n} {{\n    Entity l = place("small-lamp", i % {w}, 0 - (i / {w}) - 5);\n}}\n',
                  [("small-lamp", i % w, -(i // w) - 5, ()) for i in range(n)]))
    # a program made only of fixed entities at negative coordinates is refused by the layout stage
    # ("no feasible layout"); give every program one free computation so that it is accepted
    P = [(t, (src if src.startswith("Signal a") else 'Signal a = ("signal-A", 3);\nSignal keep = a + 1;\n' + src), e) for t, src, e in P]
    P.append(("wired-521", 'Signal a = ("signal-A", 3);\nfor i in 0..521 {\n    Entity l = place("small-lamp", i % 26, 0 - (i / 26) - 5);\n}\nSignal r = a * 2;\n',
              [("small-lamp", i % 26, -(i // 26) - 5, ()) for i in range(521)]))
    return P


class C09(core.Check):
    pid = "C09"
    level = "exploration"
    timeout = 900
    rule = ("place() with literal / int-variable / arithmetic / iterator / negative coordinates, 1x1, 1x2, 2x2 and 3x3 "
            "prototypes, every integer operator in a coordinate, static properties, wired and unwired, inside loops, nested loops, functions and functions called from loops, counts 1..120, "
            "500, 501 (decomposition threshold) and 521 (thorough 1001) x pole options x the layout-answer menu (bound 1); "
            "the multiset of (prototype, top-left tile, static properties) of user entities must equal the one computed "
            "from the program text; one case = (program, poles, answer); non-trivial = more than one entity expected")
    assumptions = ["tile of an entity = floor(position - size/2) with sizes from the game data"]

    def cases(self, tier):
        out = []
        for tag, src, exp in programs(tier):
            bigp = len(exp) >= 500
            poles = [None] if bigp else ([None, "medium"] if tier == "quick" else [None, "small", "medium", "substation"])
            if tag == "user-poles":
                poles = [None, "small", "medium", "substation"]
            devs = [None, ("no-solution",)] if bigp else (DEVS if tier == "thorough" else DEVS[:4])
            for p in poles:
                for d in devs:
                    out.append({"program": tag, "poles": p, "answer": d, "tier": tier})
        return out

    def run_case(self, case):
        progs = {t: (s, e) for t, s, e in programs(case["tier"])}
        src, exp = progs[case["program"]]
        try:
            bp = harness.compile_src(src, poles=case["poles"], deviation=tuple(case["answer"]) if case["answer"] else None)
        except harness.Rejected as ex:
            return {"status": "rejected", "detail": str(ex)[:200]}
        got, got_poles = [], []
        for e in bp["entities"]:
            if e.get("player_description"):
                continue
            tx, ty = geometry.top_left_tile(e)
            if e["name"] in geometry.POLE_NAMES:
                got_poles.append((e["name"], tx, ty, props_of(e)))
            else:
                got.append((e["name"], tx, ty, props_of(e)))
        want_all = sorted((p, x, y, tuple(pr)) for p, x, y, pr in exp)
        want = [w_ for w_ in want_all if w_[0] not in geometry.POLE_NAMES]
        got = sorted(got)
        # user-placed poles cannot be told from the compiler's own (relays, power grid) by name: every
        # pole the program places must be present at its tile; additional poles are the compiler's
        for w_ in want_all:
            if w_[0] in geometry.POLE_NAMES:
                if w_ in got_poles:
                    got_poles.remove(w_)
                    got.append(w_)
                want.append(w_)
        want, got = sorted(want), sorted(got)
        res = {"evaluations": 1, "compiles": 1, "nontrivial": len(want) > 1,
               "sample": {"program": case["program"], "expected_entities": len(want)}}
        if got != want:
            missing = [w for w in want if w not in got]
            extra = [g for g in got if g not in want]
            res["status"] = "fail"
            res["digest"] = core.sha([missing[:50], extra[:50], len(missing), len(extra)])
            res["detail"] = {"src": src[:400], "poles": case["poles"], "answer": case["answer"], "missing": missing[:5],
                             "unexpected": extra[:5], "n_missing": len(missing), "n_unexpected": len(extra)}
        else:
            res["status"] = "pass"
        return res


if __name__ == "__main__":
    core.main_for(C09)
