"""C13 — compiler-chosen signals are fresh: renaming them changes nothing."""
from __future__ import annotations

from fv import core, explore, gen, harness, lang, observe
from fv.lang import B, I, V
from fv.sim import Circuit

FRESH = ["wooden-chest", "iron-chest", "stone-furnace", "pipe", "iron-gear-wheel", "copper-cable", "stone-brick",
         "coal", "wood", "stone"] + [f"signal-{c}" for c in "0123456789"]
WILD = ("signal-each", "signal-anything", "signal-everything")


def udecl(n, typed=None, val=0):
    if typed:
        return ("decl", "Signal", n, ("lit", typed, I(val)))
    return ("decl", "Signal", n, I(val))


def programs(tier):
    A = ("decl", "Signal", "a", ("lit", "signal-A", I(11)))
    Bd = ("decl", "Signal", "b", ("lit", "signal-B", I(12)))
    Cd = ("decl", "Signal", "c", ("lit", "signal-C", I(13)))
    Z = ("decl", "Signal", "z0", ("lit", "signal-0", I(14)))
    small = {
        "arith-1": ([A], ["u1"], [("decl", "Signal", "r", B("+", B("*", V("u1"), I(2)), V("a")))], ["r"]),
        "arith-2": ([A, Bd], ["u1", "u2"], [("decl", "Signal", "r", B("+", B("*", V("u1"), V("a")), B("*", V("u2"), V("b"))))], ["r"]),
        "arith-3": ([A, Bd, Cd], ["u1", "u2", "u3"],
                    [("decl", "Signal", "r1", B("-", V("u1"), V("a"))), ("decl", "Signal", "r2", B("-", V("u2"), V("b"))),
                     ("decl", "Signal", "r3", B("*", B("+", V("u3"), V("c")), V("u1")))], ["r1", "r2", "r3"]),
        "cmp-2": ([A, Bd], ["u1", "u2"], [("decl", "Signal", "r", ("cond", B(">", V("u1"), V("a")), V("u2")))], ["r"]),
        "bundle-2": ([A, Bd], ["u1", "u2"], [("decl", "Bundle", "bb", ("bundle", [V("a"), V("u1"), V("b"), V("u2")])),
                                              ("decl", "Bundle", "r", B("*", V("bb"), I(3)))], ["r"]),
        "bundle-any": ([A, Z], ["u1", "u2"], [("decl", "Bundle", "bb", ("bundle", [V("a"), V("u1"), V("z0"), V("u2")])),
                                              ("decl", "Signal", "r", B(">", ("any", V("bb")), I(2)))], ["r"]),
        "entity": ([A], ["u1"], [("place", "l1", "small-lamp", I(10), I(20), None), ("prop", "l1", "enable", B(">", V("u1"), I(2))),
                                 ("place", "l2", "small-lamp", I(12), I(20), None), ("prop", "l2", "enable", B(">", B("+", V("u1"), V("a")), I(2)))], []),
        "implicit-results": ([A, Bd], ["u1"], [("decl", "Signal", "t1", B("+", V("u1"), I(1))), ("decl", "Signal", "t2", B(">", I(3), I(2))),
                                               ("decl", "Signal", "r", B("+", B("*", V("t1"), V("a")), B("*", V("t2"), V("b"))))], ["r"]),
    }
    # a bundle whose members include an untyped value AND a result derived from it (the derived result inherits the
    # value's compiler-chosen signal: the compiler has to refuse the bundle or give the members different signals)
    small["bundle-derived"] = ([A], ["u1"], [("decl", "Signal", "w1", B("*", V("u1"), I(3))),
                                             ("decl", "Bundle", "bb", ("bundle", [V("a"), V("u1"), V("w1")])),
                                             ("decl", "Bundle", "r", B("*", V("bb"), I(2)))], ["r"])
    small["bundle-derived-cmp"] = ([A], ["u1"], [("decl", "Signal", "w1", ("cond", B(">", V("u1"), I(0)), V("u1"))),
                                                 ("decl", "Bundle", "bb", ("bundle", [V("w1"), V("a"), V("u1")])),
                                                 ("decl", "Bundle", "r", B("+", V("bb"), I(2)))], ["r"])
    small["bundle-two-calls"] = ([A], ["u1", "u2"], [("func", "f", [("Signal", "s")], [], B("+", V("s"), I(1))),
                                               ("decl", "Bundle", "bb", ("bundle", [V("a"), ("call", "f", [V("u1")]), ("call", "f", [V("u2")])])),
                                               ("decl", "Bundle", "r", B("*", V("bb"), I(2)))], ["r"])
    # untyped values that receive their compiler-chosen signal only during LOWERING (a folded constant initialiser, an int
    # bound to a Signal parameter, a negated value) next to values numbered by the semantic analyser
    small["lowering-folded"] = ([A], ["u1"], [("decl", "Signal", "s1", B("*", I(2), I(3))),
                                              ("decl", "Bundle", "bb", ("bundle", [V("a"), V("u1"), V("s1")])),
                                              ("decl", "Bundle", "r", B("*", V("bb"), I(2)))], ["r"])
    small["lowering-folded-2"] = ([A], ["u1", "u2"], [("decl", "Signal", "s1", B("+", I(20), I(3))), ("decl", "Signal", "s2", B("-", I(50), I(1))),
                                                      ("decl", "Bundle", "bb", ("bundle", [V("s2"), V("u1"), V("a"), V("s1"), V("u2")])),
                                                      ("decl", "Bundle", "r", B("+", V("bb"), I(2)))], ["r"])
    small["lowering-intarg"] = ([A], ["u1"], [("func", "f", [("Signal", "s")], [], B("+", V("s"), V("a"))),
                                              ("decl", "Signal", "w1", ("call", "f", [I(30)])),
                                              ("decl", "Signal", "r", B("+", B("*", V("u1"), I(100)), V("w1")))], ["r"])
    # untyped variables whose NAMES are signal names the program also uses explicitly
    coal = ("decl", "Signal", "kc", ("lit", "coal", I(15)))
    small["named-like-item"] = ([coal], ["coal"], [("decl", "Bundle", "bb", ("bundle", [V("coal"), V("kc")])),
                                                    ("decl", "Bundle", "r", B("*", V("bb"), I(3)))], ["r"])
    small["named-like-item-arith"] = ([coal], ["stone", "wood"], [("decl", "Signal", "r", B("+", B("*", V("stone"), V("kc")), V("wood")))], ["r"])
    for tag, (pre, us, body, outs) in small.items():
        yield {"tag": tag, "pre": pre, "untyped": us, "body": body, "outputs": outs, "k": len(us)}
    # explicit uses of pool signals that sit deep in the allocation order (digits, colours, arrows, shapes, symbols)
    late = ["signal-7", "signal-red", "down-arrow", "shape-cross", "signal-info", "signal-percent"]
    for k in ((60,) if tier == "quick" else (60, 100, 135)):
        us = [f"u{i}" for i in range(1, k + 1)]
        pre = [("decl", "Signal", f"e{j}", ("lit", nm, I(1000 + j))) for j, nm in enumerate(late)]
        items = [V(f"e{j}") for j in range(len(late))] + [V(u) for u in us]
        yield {"tag": f"explicit-late-{k}", "pre": pre, "untyped": us,
               "body": [("decl", "Bundle", "bb", ("bundle", items)), ("decl", "Bundle", "r", B("+", V("bb"), I(1)))],
               "outputs": ["r"], "k": k}
    ks = (27, 40, 80) if tier == "quick" else (27, 40, 80, 120, 145)
    for k in ks:
        us = [f"u{i}" for i in range(1, k + 1)]
        items = [V("a")] + [V(u) for u in us]
        yield {"tag": f"bundle-{k}", "pre": [A], "untyped": us,
               "body": [("decl", "Bundle", "bb", ("bundle", items)), ("decl", "Bundle", "r", B("+", V("bb"), I(1)))],
               "outputs": ["r"], "k": k}


class C13(core.Check):
    pid = "C13"
    level = "exploration"
    timeout = 600
    rule = ("programs mixing k untyped values (k in 1,2,3,27,40; thorough 80,120) with explicit uses of the first pool "
            "signals (signal-A/B/C, signal-0) in arithmetic, comparisons, bundles, any(), entity conditions; (i) direct: "
            "the signal the blueprint shows for every untyped value is no wildcard, not signal-W, not a name the program "
            "uses explicitly and differs from the other untyped values it meets in one bundle/expression, and the each-result "
            "of a bundle literal with n non-zero members (incl. a value and a result derived from it, two calls of one function) carries n signals; (ii) "
            "differential: the twin in which every untyped value has a fresh unused explicit type gives the same outputs "
            "(values; for bundles the multiset of member values) and entity conditions for every input valuation; "
            "non-trivial = outputs vary")
    assumptions = ["circuit model fv/sim.py"]

    def cases(self, tier):
        return list(programs(tier))

    def run_case(self, case):
        pre = gen.thaw(case["pre"])
        body = gen.thaw(case["body"])
        us = case["untyped"]
        k = case["k"]
        vals0 = {u: (i % 7) + 1 for i, u in enumerate(us)}
        A = list(pre) + [udecl(u, None, vals0[u]) for u in us] + list(body)
        Bt = list(pre) + [udecl(u, FRESH[i % len(FRESH)] if k <= len(FRESH) else None, vals0[u]) for i, u in enumerate(us)] + list(body)
        explicit = set()

        def walk(x):
            if isinstance(x, tuple):
                if x and x[0] in ("lit",) and isinstance(x[1], str):
                    explicit.add(x[1])
                if x and x[0] == "proj" and isinstance(x[2], str):
                    explicit.add(x[2])
                for y in x:
                    walk(y)
        walk(tuple(pre) + tuple(body))
        srcA = lang.show_prog(A)
        try:
            bp = harness.compile_src(srcA)
        except harness.Rejected as ex:
            return {"status": "rejected", "detail": str(ex)[:300]}
        problems = []
        chosen = {}
        for u in us:
            es = [e for e in observe.find_labelled(bp, u, "input") if e["name"] == "constant-combinator"]
            if len(es) != 1:
                problems.append((u, f"{len(es)} labelled combinators"))
                continue
            fs = observe.const_filters(es[0])
            nm = fs[0]["name"] if fs else observe.label_signal(es[0])
            chosen[u] = nm
            if nm in WILD:
                problems.append((u, f"wildcard {nm}"))
            if nm == "signal-W":
                problems.append((u, "reserved signal-W"))
            if nm in explicit:
                problems.append((u, f"chosen {nm} is used explicitly by the program"))
        # all untyped values of these programs meet in one bundle / expression: must be pairwise distinct
        names = list(chosen.values())
        dup = sorted({n for n in names if names.count(n) > 1})
        if dup:
            problems.append(("untyped", f"same signal chosen twice: {dup}"))
        # every member of a bundle literal travels on its own signal: with all members non-zero, the each-result `r`
        # of the bundle shows exactly as many signals as the literal has members
        lits = [st for st in body if st[0] == "decl" and st[1] == "Bundle" and st[3][0] == "bundle"]
        if lits and "r" in case["outputs"] and any(st[0] == "decl" and st[1] == "Bundle" and st[2] == "r" for st in body):
            circ0 = Circuit(bp)
            st0, k0 = circ0.settle(circ0.initial_state(), 60)
            view = observe.output_view(circ0, "r")
            got = observe.by_name(observe.read_output(circ0, st0, view) or {}) if view[0] in ("anchor", "const") else None
            n_members = len(lits[0][3][1])
            if got is None or k0 is None:
                problems.append(("r", f"bundle result not observable ({view[0]}, settled={k0 is not None})"))
            elif len(got) != n_members:
                problems.append(("r", f"bundle literal has {n_members} non-zero members but its each-result carries {len(got)} signals: {dict(list(got.items())[:6])}"))
        # explicit names appear verbatim
        for s in pre:
            es = observe.find_labelled(bp, s[2], "input")
            if es and observe.const_filters(es[0]) and observe.const_filters(es[0])[0]["name"] != s[3][1]:
                problems.append((s[2], f"explicit {s[3][1]} emitted as {observe.const_filters(es[0])[0]['name']}"))
        res = {"evaluations": 1, "compiles": 1, "nontrivial": True, "sample": {"src": srcA[:400], "chosen": dict(list(chosen.items())[:6])}}
        if k <= 3:
            inputs = [s[2] for s in pre] + us
            dom = {i: [0, 1, 3, -2] for i in inputs}
            a = {"stmts": A, "inputs": inputs, "opts": {"optimize": True}}
            b = {"stmts": Bt, "inputs": inputs, "opts": {"optimize": True}}
            bundle_out = any(s[0] == "decl" and s[1] == "Bundle" and s[2] in case["outputs"] for s in body)
            try:
                d = explore.run_differential(a, b, dom, [(o, o) for o in case["outputs"]],
                                             mode="signals" if bundle_out else "value")
            except harness.Rejected as ex:
                # the explicitly typed twin is refused (a derived result inherits the explicit type and meets its
                # source in one bundle): no twin to compare with; the direct checks above decide
                d = {"status": "twin-rejected: " + str(ex)[:80]}
            if bundle_out and d.get("status") == "fail":
                # bundle members are renamed by construction: compare the multisets of values instead
                try:
                    d = _bundle_values_differential(a, b, dom, case["outputs"])
                except harness.Rejected as ex:
                    d = {"status": "twin-rejected: " + str(ex)[:80]}
            res["evaluations"] += d.get("evaluations", 0)
            res["compiles"] += 4
            if d["status"] == "fail":
                problems.append(("twin", d["detail"].get("first_mismatch") or d["detail"].get("problem")))
            elif d["status"] not in ("pass",):
                res["twin_status"] = d["status"]
        if problems:
            res["status"] = "fail"
            res["digest"] = core.sha(problems)
            res["detail"] = {"src": srcA if k <= 3 else srcA[:600], "problems": problems[:12], "n_problems": len(problems)}
        else:
            res["status"] = "pass"
        return res


def _bundle_values_differential(a, b, dom, outputs):
    ca, ia, _ = explore.compile_with_inputs(a["stmts"], a["inputs"], a["opts"])
    cb, ib, _ = explore.compile_with_inputs(b["stmts"], b["inputs"], b["opts"])
    n = 0
    for v in explore.grid(dom, a["inputs"]):
        ia.set(v)
        ib.set(v)
        sa, ka = ca.settle(ca.initial_state())
        sb, kb = cb.settle(cb.initial_state())
        n += 1
        for o in outputs:
            oa = observe.read_output(ca, sa, observe.output_view(ca, o)) or {}
            ob = observe.read_output(cb, sb, observe.output_view(cb, o)) or {}
            if sorted(oa.values()) != sorted(ob.values()):
                return {"status": "fail", "evaluations": n,
                        "detail": {"first_mismatch": {"what": o, "inputs": v, "A": observe.by_name(oa), "B": observe.by_name(ob)}}}
    return {"status": "pass", "evaluations": n}


if __name__ == "__main__":
    core.main_for(C13)
