"""C18 — requested power poles power everything and form one grid."""
from __future__ import annotations

from fv import canon, core, explore, geometry, harness
from fv.corpus import CORPUS, SIZED, LAYOUT

TYPES = {"small": "small-electric-pole", "medium": "medium-electric-pole", "big": "big-electric-pole", "substation": "substation"}
DEVS = [None, ("stretch-x", 3), ("stretch-y", 2), ("mirror-x",), ("lower-out", 4), ("no-solution",), ("push", 0, 10), ("push", 1, 25)]


class C18(core.Check):
    pid = "C18"
    level = "exploration"
    timeout = 900
    rule = ("every program of the corpus plus size-scaled programs (10 lamps, 60 combinators, user entities at negative "
            "coordinates and 60 tiles out) x T in {small, medium, big, substation} x the layout-answer menu (bound 1); "
            "from the game data: every entity with an electric energy source overlaps the supply area of a pole of type T, "
            "all poles form one copper network with every copper wire within reach, the canonical logical circuit and the "
            "user-entity multiset equal those of the build without poles; without the option every pole carries a "
            "circuit wire; one case = (program, T, layout answer); non-trivial = poles were emitted")
    assumptions = ["supply_area_distance / maximum_wire_distance / energy_source from the game data shipped with draftsman"]

    def cases(self, tier):
        progs = list(CORPUS) + list(LAYOUT) + [p for p in SIZED if tier == "thorough" or p != "combs-60"]
        out = []
        for p in progs:
            devs = DEVS if tier == "thorough" else DEVS[:6]
            if p in SIZED:
                devs = DEVS[:3]
            for t in TYPES:
                for dv in devs:
                    out.append({"program": p, "T": t, "answer": dv})
        return out

    def run_case(self, case):
        progs = dict(CORPUS)
        progs.update(LAYOUT)
        progs.update(SIZED)
        src = progs[case["program"]]
        T = case["T"]
        bad = []
        n = 0
        npoles = 0
        try:
            ref = harness.compile_src(src)
        except harness.Rejected as ex:
            return {"status": "rejected", "detail": str(ex)[:200]}
        ref_digest, ref_form = canon.canonical(ref)
        ref_users = sorted(explore.user_entities(ref))
        # without the option: no pole other than circuit relays
        lonely = []
        wired = {x for w in ref.get("wires", []) or [] if w[1] in (1, 2) and w[3] in (1, 2) for x in (w[0], w[2])}
        for e in ref["entities"]:
            if e["name"] in geometry.POLE_NAMES and e["entity_number"] not in wired:
                lonely.append(e["name"])
        if lonely:
            bad.append(("no-poles-option", [("pole-without-circuit-wire", x) for x in lonely]))
        for dv in [tuple(case["answer"]) if case["answer"] else None]:
            try:
                bp = harness.compile_src(src, poles=T, deviation=dv)
            except harness.Rejected:
                continue
            n += 1
            probs = list(geometry.supply_problems(bp, TYPES[T]))
            npoles += sum(1 for e in bp["entities"] if e["name"] == TYPES[T])
            for p in geometry.paste_problems(bp):
                if p[0] == "wire-too-long" and p[1] == "copper":
                    probs.append(("copper-wire-too-long",) + p[2:])
            d, form = canon.canonical(bp)
            if d != ref_digest:
                probs.append(("logical-circuit-differs-from-build-without-poles", str(canon.explain_diff(ref_form, form))[:300]))
            if sorted(explore.user_entities(bp)) != ref_users:
                probs.append(("user-entities-differ",))
            if probs:
                bad.append((f"answer={dv}", sorted(set(probs), key=str)))
        res = {"evaluations": n, "compiles": n + 1, "nontrivial": npoles > 0,
               "sample": {"program": case["program"], "T": T, "answers": n, "poles_emitted": npoles}}
        if bad:
            res["status"] = "fail"
            res["digest"] = core.sha(bad)
            res["detail"] = {"src": src, "T": T, "first": {"answer": bad[0][0], "problems": bad[0][1][:8]},
                             "bad_answers": [b[0] for b in bad]}
        else:
            res["status"] = "pass" if n else "rejected"
        return res


if __name__ == "__main__":
    core.main_for(C18)
