"""C10 — optimisation never changes what the circuit does (differential: optimised vs --no-optimize)."""
from __future__ import annotations

from fv import core, explore, gen, lang
from fv.lang import B, I, V

BUN = ("bundle", [("lit", "signal-X", V("x")), ("lit", "signal-Y", V("y")), ("lit", "iron-plate", V("i"))])


def D(name, e, kind="Signal"):
    return ("decl", kind, name, e)


def dedicated():
    A, C, Dd, Bb = V("a"), V("c"), V("d"), V("b")
    cases = {
        # repeated sub-expressions that differ in exactly one thing
        "mode": [D("r1", ("cond", B(">", Bb, I(0)), Bb)), D("r2", ("cond", B(">", Bb, I(0)), I(1)))],
        "mode2": [D("r1", ("cond", B(">", A, I(1)), C)), D("r2", ("cond", B(">", A, I(1)), I(7)))],
        "operator": [D("r1", B("+", A, C)), D("r2", B("-", A, C))],
        "operand": [D("r1", B("+", A, C)), D("r2", B("+", A, Dd))],
        "const-operand": [D("r1", B("*", A, I(2))), D("r2", B("*", A, I(3)))],
        "out-type": [D("r1", ("proj", B("+", A, C), "signal-X")), D("r2", ("proj", B("+", A, C), "signal-Y"))],
        "identical": [D("r1", B("+", A, C)), D("r2", B("+", A, C))],
        "identical3": [D("r1", B("*", A, C)), D("r2", B("*", A, C)), D("r3", B("+", B("*", A, C), I(1)))],
        "commuted": [D("r1", B("+", A, C)), D("r2", B("+", C, A))],
        "cmp-op": [D("r1", B(">", A, I(1))), D("r2", B(">=", A, I(1)))],
        "cmp-const": [D("r1", B(">", A, I(1))), D("r2", B(">", A, I(2)))],
        "cond-value": [D("r1", ("cond", B(">", A, I(1)), C)), D("r2", ("cond", B(">", A, I(1)), Dd))],
        "same-type-operands": [D("r1", B("-", A, Bb)), D("r2", B("-", Bb, A))],
        "shared-then-diff": [D("t1", B("+", A, C)), D("r1", B("*", V("t1"), I(2))), D("t2", B("+", A, C)), D("r2", B("*", V("t2"), I(3)))],
        # folded values consumed by each consumer kind
        "fold-arith": [D("r1", B("+", A, ("paren", B("*", I(2), I(3)))))],
        "fold-decider": [D("r1", B(">", A, ("paren", B("+", I(2), I(1)))))],
        "fold-multi": [D("r1", ("cond", ("paren", B("&&", B(">", A, ("paren", B("+", I(1), I(1)))), B("<", C, ("paren", B("*", I(2), I(2)))))), I(5)))],
        "fold-intvar": [D("k", B("*", I(3), I(4)), "int"), D("r1", B("+", A, V("k"))), D("r2", B(">", C, V("k")))],
        "fold-merge": [D("r1", B("+", B("+", ("lit", "signal-A", I(2)), ("lit", "signal-A", B("+", I(1), I(2)))), A))],
        "fold-typed": [D("k1", ("lit", "signal-C", I(6))), D("r1", B("*", V("k1"), A))],
        # integer literal on the LEFT of an operation on a declared input
        "int-left": [D("r1", B("-", I(100), A)), D("r2", B("+", I(5), C)), D("r3", B("*", I(6), Dd)), D("r4", B(">", I(7), A))],
        "int-left-nested": [D("r1", B("*", ("paren", B("-", I(100), A)), C)), D("r2", B("+", ("paren", B("/", I(90), C)), A))],
        # fan-out >= 3 (MST wiring)
        "fanout4": [D("t1", B("+", A, C)), D("r1", B("*", V("t1"), I(2))), D("r2", B("*", V("t1"), I(3))),
                    D("r3", B("-", V("t1"), I(4))), D("r4", B(">", V("t1"), I(3)))],
        "fanout-input": [D("r1", B("*", A, I(2))), D("r2", B("*", A, I(3))), D("r3", B("-", A, I(4))),
                         D("r4", B(">", A, I(3))), D("r5", B("+", A, C))],
        # bundles
        "bundle-each": [D("bb", BUN, "Bundle"), D("r1", B("*", V("bb"), I(2)), "Bundle"), D("r2", B("*", V("bb"), I(3)), "Bundle")],
        "bundle-filter-mode": [D("bb", BUN, "Bundle"), D("r1", ("cond", B(">", V("bb"), I(0)), V("bb")), "Bundle"),
                               D("r2", ("cond", B(">", V("bb"), I(0)), I(1)), "Bundle")],
        "bundle-anyall": [D("bb", BUN, "Bundle"), D("r1", B(">", ("any", V("bb")), I(2))), D("r2", B(">", ("all", V("bb")), I(2)))],
    }
    # an anonymous constant shared by several consumers through a Signal parameter: one consumer is folded away,
    # another copies the constant (':' value), tests it or merges it
    gate = lambda ret, extra=(): ("func", "gate", [("Signal", "k"), ("Signal", "s")], list(extra), ret)
    twice = D("tw", B("*", V("k"), I(2)))
    pas = D("pa", ("cond", B(">", V("s"), I(0)), V("k")))
    cases["const-param-copy"] = [gate(B("+", V("pa"), V("tw")), [twice, pas]), D("r1", ("call", "gate", [("lit", "signal-K", I(5)), A]))]
    cases["const-param-copy-int"] = [gate(B("+", V("pa"), V("tw")), [twice, pas]), D("r1", ("call", "gate", [I(5), A]))]
    cases["const-param-copy-proj"] = [gate(B("+", V("pa"), V("tw")), [twice, pas]), D("r1", ("call", "gate", [("proj", I(5), "signal-K"), A]))]
    cases["const-param-test"] = [gate(B("+", ("cond", B(">", V("k"), V("s")), V("s")), V("tw")), [twice]), D("r1", ("call", "gate", [I(5), A]))]
    cases["const-param-twice"] = [gate(B("+", V("pa"), V("tw")), [twice, pas]), D("r1", ("call", "gate", [I(5), A])), D("r2", ("call", "gate", [I(7), C]))]
    for tag, body in cases.items():
        yield tag, body, [], None
    # entity property / inline condition / coordinate consumers
    ent = {
        "ent-inline": [("place", "l1", "small-lamp", I(10), I(20), None), ("prop", "l1", "enable", B(">", A, ("paren", B("*", I(2), I(2)))))],
        "ent-shared-cmp": [D("t1", B(">", A, I(2))), ("place", "l1", "small-lamp", I(10), I(20), None), ("prop", "l1", "enable", V("t1")),
                           ("place", "l2", "small-lamp", I(12), I(20), None), ("prop", "l2", "enable", V("t1")), D("r1", B("+", V("t1"), C))],
        "ent-two-same": [("place", "l1", "small-lamp", I(10), I(20), None), ("prop", "l1", "enable", B(">", A, I(2))),
                         ("place", "l2", "small-lamp", I(12), I(20), None), ("prop", "l2", "enable", B(">", A, I(2)))],
        "ent-coord": [("place", "l1", "small-lamp", B("*", I(2), I(5)), I(20), None), ("prop", "l1", "enable", B(">", B("+", A, C), I(2)))],
        "ent-anyall": [D("bb", BUN, "Bundle"), ("place", "l1", "small-lamp", I(10), I(20), None),
                       ("prop", "l1", "enable", B(">", ("any", V("bb")), ("paren", B("+", I(1), I(1)))))],
    }
    ent["ent-fanout-far"] = [D("lit", B(">", B("*", A, I(3)), I(10)))] + [x for n, px in enumerate((0, 2, 40)) for x in
                             (("place", f"l{n}", "small-lamp", I(px), I(0), None), ("prop", f"l{n}", "enable", B(">", V("lit"), I(0))))]
    ent["ent-fanout-far-arith"] = [D("t1", B("+", A, C))] + [x for n, px in enumerate((0, 3, 44, 46)) for x in
                                   (("place", f"l{n}", "small-lamp", I(px), I(2), None), ("prop", f"l{n}", "enable", B(">", V("t1"), I(n))))]
    for tag, body in ent.items():
        yield tag, body, [], None


def stateful():
    A, C, T = V("a"), V("c"), V("t")
    progs = {
        "mem-fold": [("mem", "m", "signal-M"), ("write", "m", ("proj", B("+", A, ("paren", B("*", I(2), I(3)))), "signal-M"), B(">", T, I(0))),
                     D("r1", B("+", ("read", "m"), I(1)))],
        "mem-const": [("mem", "m", "signal-M"), ("write", "m", ("lit", "signal-M", B("*", I(2), I(3))), B(">", T, I(0))),
                      D("r1", B("+", ("read", "m"), I(1)))],
        "mem-two-readers": [("mem", "m", "signal-M"), ("write", "m", ("proj", A, "signal-M"), B(">", T, I(0))),
                            D("r1", B("+", ("read", "m"), I(1))), D("r2", B("+", ("read", "m"), I(1))), D("r3", B("*", ("read", "m"), I(2)))],
        "latch-fold": [("mem", "l", "signal-L"), ("latch", "l", B("+", I(2), I(5)), B("<", A, ("paren", B("+", I(10), I(10)))), B(">=", A, ("paren", B("*", I(8), I(10)))), "sr"),
                       D("r1", B("*", ("read", "l"), I(2)))],
        "latch-sig": [("mem", "l", "signal-L"), ("latch", "l", I(1), B(">", A, I(0)), B(">", C, I(0)), "sr"), D("r1", ("read", "l"))],
        "counter-gated": [("mem", "m", "signal-M"), ("write", "m", B("+", ("read", "m"), I(1)), B(">", T, I(0))), D("r1", ("read", "m"))],
    }
    dom = {"a": [0, 1, 19, 20, 80, 5], "c": [0, 1], "t": [0, 1]}
    for tag, body in progs.items():
        yield tag, body, dom


class C10(core.Check):
    pid = "C10"
    level = "model_checking"
    timeout = 400
    rule = ("every program of the dedicated corpus (repeated sub-expressions differing in exactly one of operator / "
            "operand / output type / output mode, folded values at every consumer kind, fan-out >= 3) plus the S4/S6/S7 "
            "slices of C01 is compiled with and without optimisation and the two circuits are compared output by output "
            "for every input valuation; stateful programs (gated cells, latches, C03/C05 corpora) by lock-step BFS over "
            "the product of the two circuits to closure; non-trivial = outputs vary")
    assumptions = ["circuit model fv/sim.py"]

    def cases(self, tier):
        out = []
        for tag, body, _, _ in dedicated():
            body = gen.thaw(body)
            used = set()

            def walk(x):
                if isinstance(x, tuple):
                    if x and x[0] == "var":
                        used.add(x[1])
                    for y in x:
                        walk(y)
            walk(body)
            inputs = [n for n in gen.INPUT_DECL if n in used and n not in ("r",)]
            outs = [s[2] for s in body if s[0] == "decl" and s[2].startswith("r")]
            out.append({"kind": "stateless", "tag": tag, "stmts": gen.prog_with_inputs(inputs, body),
                        "inputs": inputs, "outputs": outs})
        for tag, body, dom in stateful():
            body = gen.thaw(body)
            inputs = [n for n in ("a", "c", "t") if any(n in str(s) and ("var", n) in _flat(s) for s in body)]
            outs = [s[2] for s in body if s[0] == "decl"]
            out.append({"kind": "stateful", "tag": tag, "stmts": gen.prog_with_inputs(inputs, body), "inputs": inputs,
                        "outputs": outs, "domains": {i: dom[i] for i in inputs}})
        # reuse: C01 slices
        from checks import c01
        fam = list(c01.S4()) + list(c01.S6()) + list(c01.S7())
        if tier == "thorough":
            fam += list(c01.S1()) + list(c01.S2()) + list(c01.S5(False))
        for c in fam:
            out.append({"kind": "c01", "tag": c["family"], "stmts": c["stmts"], "inputs": c["inputs"],
                        "outputs": c["outputs"], "domains": c["domains"]})
        # reuse: C03 / C05 corpora (lock-step BFS)
        from checks import c03, c05
        for c in c03.C03().cases("quick" if tier == "quick" else "thorough"):
            if c["family"] == "two-cells":
                if c["opts"]["optimize"]:
                    out.append({"kind": "stateful", "tag": "c03-two:" + c["tag"] + str(c["explicit"]), "stmts": c["stmts"],
                                "inputs": c["inputs"], "outputs": c["outputs"], "domains": c["domains"]})
                continue
            if c["readers"] == "mix+arith":
                continue     # never settles on the pinned tree (C03-F1): nothing to compare at settled states
            if c["opts"]["optimize"] and (tier == "thorough" or c["readers"] in ("arith+cmp", "arith+cmp+lamp")):
                out.append({"kind": "stateful", "tag": "c03:" + c["v"] + "/" + c["c"] + "/" + c["readers"] + str(c["explicit"]),
                            "stmts": c["stmts"], "inputs": c["inputs"], "outputs": c["outputs"], "domains": c["domains"]})
        for c in c05.C05().cases("quick"):
            if c["opts"]["optimize"] and (tier == "thorough" or c["family"] != "shared" or c["tag"].endswith("/1")):
                out.append({"kind": "stateful", "tag": "c05:" + c["order"] + c["tag"], "stmts": c["stmts"],
                            "inputs": c["inputs"], "outputs": c["outputs"], "domains": c["domains"]})
        seen, uniq = set(), []
        for c in out:
            i = core.case_id(c)
            if i not in seen:
                seen.add(i)
                uniq.append(c)
        return uniq

    def run_case(self, case):
        stmts = gen.thaw(case["stmts"])
        A = {"stmts": stmts, "inputs": case["inputs"], "opts": {"optimize": True}}
        Bn = {"stmts": stmts, "inputs": case["inputs"], "opts": {"optimize": False}}
        if case["kind"] == "stateful":
            return explore.run_product_bfs(A, Bn, case["inputs"], case["domains"], case["outputs"])
        dom = case.get("domains") or {i: [0, 1, -1, 2, 3, 7, -8] for i in case["inputs"]}
        mode = "signals" if case["tag"].startswith("bundle") else "value"
        return explore.run_differential(A, Bn, dom, [(o, o) for o in case["outputs"]], mode=mode)


def _flat(x, acc=None):
    acc = [] if acc is None else acc
    if isinstance(x, tuple):
        if len(x) == 2 and x[0] == "var":
            acc.append(("var", x[1]))
        for y in x:
            _flat(y, acc)
    return acc


if __name__ == "__main__":
    core.main_for(C10)
