"""C08 — every emitted blueprint can be pasted: no overlaps, all wires reach."""
from __future__ import annotations

from fv import canon, core, geometry, harness
from fv.corpus import CORPUS, SIZED, LAYOUT
from checks.c19 import DEVIATIONS

POLES = [None, "small", "medium", "big", "substation"]


def answers_for(tier, sized):
    devs = DEVIATIONS if tier == "thorough" else [("stretch-x", 3), ("stretch-x", 5), ("stretch-y", 2), ("mirror-x",),
                                                  ("lower-out", 4), ("no-solution",), ("push", 0, 10), ("push", 1, 25),
                                                  ("push", 2, 25)]
    if sized:
        devs = [("stretch-x", 3), ("no-solution",), ("push", 0, 25)]
    ans = [("default", {})] + [(f"dev={d}", {"deviation": d}) for d in devs]
    ans += [(f"fault=(0,{j})", {"faults": [(0, j)]}) for j in range(2 if (tier == "quick" or sized) else 4)]
    if tier == "thorough" and not sized:
        ans += [(f"dev={d}+fault=(0,{j})", {"deviation": d, "faults": [(0, j)]})
                for d in (("stretch-x", 3), ("no-solution",), ("push", 0, 25)) for j in range(2)]
        ans += [("faults=(0,0)+(1,0)", {"faults": [(0, 0), (1, 0)]}), ("faults=(0,1)+(1,1)", {"faults": [(0, 1), (1, 1)]})]
    return ans


class C08(core.Check):
    pid = "C08"
    level = "fault_enumeration"
    timeout = 900
    rule = ("every program of the corpus (memories, both latch kinds with remappers and multiplier, 8-way fan-out, "
            "merges, user entities 40 tiles apart, multi-tile user entities) x pole option x optimise on/off x every "
            "environment answer with at most one deviation from the solver's own placement (stretch, push one entity, "
            "lower output row, mirror, hint grid, no solution -> fallback grid) and at most one injected relay-routing "
            "failure (thorough: two); each emitted blueprint is checked against the game data: no intersecting collision "
            "boxes, every wire joins existing entities at connectors they have with one colour, wire length within the "
            "reach of both ends, and the network partition equals that of the undisturbed build; one case = one "
            "(program, poles, optimise) with all its environment answers; non-trivial = at least one answer changed the "
            "placement")
    assumptions = ["collision boxes / wire reach from the game data shipped with draftsman",
                   "wire length is measured between entity positions, as draftsman and the compiler do",
                   "the deviation menu stands for 'any feasible placement' (it is not all of them)"]

    def cases(self, tier):
        out = []
        progs = dict(CORPUS)
        progs.update(LAYOUT)
        progs.update(SIZED)
        for p in progs:
            if tier == "quick" and p == "combs-60":
                continue       # 60 combinators: ~15 s per compile, thorough tier only
            menu = POLES if tier == "thorough" else [None, "small", "medium"]
            if tier == "quick" and p in ("entity", "lamps-10", "fanout-far"):
                menu = POLES         # the 2x2 poles (big, substation) on three programs in the quick tier as well
            for poles in menu:
                for opt in ((True, False) if (tier == "thorough" or poles is None) else (True,)):
                    ans = answers_for(tier, p in SIZED)
                    for i in range(0, len(ans), 5):
                        out.append({"program": p, "poles": poles, "optimize": opt, "tier": tier,
                                    "answers": [a[0] for a in ans[i:i + 5]]})
        return out

    def run_case(self, case):
        progs = dict(CORPUS)
        progs.update(LAYOUT)
        progs.update(SIZED)
        src = progs[case["program"]]
        kw = dict(poles=case["poles"], optimize=case["optimize"])
        allans = dict(answers_for("thorough", False))
        answers = [("default", {})] + [(t, allans[t]) for t in case["answers"] if t != "default"]
        base_digest = None
        base_pos = None
        bad = []
        n = rejected = moved = 0
        for tag, extra in answers:
            try:
                bp = harness.compile_src(src, **kw, **extra)
            except harness.Rejected:
                rejected += 1
                continue
            n += 1
            probs = geometry.paste_problems(bp)
            d, _ = canon.canonical(bp)
            pos = sorted((e["name"], e["position"]["x"], e["position"]["y"]) for e in bp["entities"])
            if tag == "default":
                base_digest, base_pos = d, pos
            else:
                if base_pos is not None and pos != base_pos:
                    moved += 1
                if base_digest is not None and d != base_digest:
                    probs.append(("network-partition-differs-from-undisturbed-build",))
            if probs:
                bad.append((tag, probs))
        res = {"evaluations": n, "compiles": n + rejected, "answers_rejected": rejected, "answers_moved": moved,
               "nontrivial": moved > 0, "sample": {"program": case["program"], "poles": case["poles"], "answers": n}}
        if bad:
            res["status"] = "fail"
            res["digest"] = core.sha(bad)
            res["detail"] = {"src": src, "poles": case["poles"], "optimize": case["optimize"],
                             "first": {"answer": bad[0][0], "problems": bad[0][1][:6]}, "n_bad_answers": len(bad),
                             "bad_answers": [b[0] for b in bad][:12]}
        else:
            res["status"] = "pass" if n else "rejected"
        return res


if __name__ == "__main__":
    core.main_for(C08)
