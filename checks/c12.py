"""C12 — independent computations do not interfere."""
from __future__ import annotations

import itertools

from fv import core, explore, gen, lang
from fv.lang import B, I, V

IN = gen.INPUT_DECL
BUN = ("bundle", [V("x"), V("y")])
MINI = {
    "arith": ([IN["a"], ("decl", "Signal", "r", B("+", B("*", V("a"), I(2)), I(1)))], ["a"], ["r"], "value"),
    "cond": ([IN["a"], IN["c"], ("decl", "Signal", "r", ("cond", B(">", V("a"), I(2)), V("c")))], ["a", "c"], ["r"], "value"),
    "same-type": ([IN["a"], IN["b"], ("decl", "Signal", "r", B("-", V("a"), V("b")))], ["a", "b"], ["r"], "value"),
    "proj": ([IN["a"], ("decl", "Signal", "r", ("proj", B("+", V("a"), I(3)), "signal-C"))], ["a"], ["r"], "value"),
    "untyped": ([IN["u"], ("decl", "Signal", "r", B("*", V("u"), I(3)))], ["u"], ["r"], "value"),
    "merge": ([IN["a"], ("decl", "Signal", "k", ("lit", "signal-A", I(5))), ("decl", "Signal", "r", B("+", V("k"), V("a")))], ["a"], ["r"], "value"),
    "fanout": ([IN["a"], ("decl", "Signal", "t1", B("+", V("a"), I(1))), ("decl", "Signal", "r", B("*", V("t1"), I(2))),
                ("decl", "Signal", "r2", B("*", V("t1"), I(3))), ("decl", "Signal", "r3", B(">", V("t1"), I(2)))], ["a"], ["r", "r2", "r3"], "value"),
    # three same-type producers that meet pairwise: a wire-colour conflict two colours cannot solve
    "triangle": ([IN["a"], ("decl", "Signal", "t1", B("*", V("a"), I(2))), ("decl", "Signal", "t2", B("*", V("a"), I(3))),
                  ("decl", "Signal", "t3", B("*", V("a"), I(5))), ("decl", "Signal", "r", B("-", V("t1"), V("t2"))),
                  ("decl", "Signal", "r2", B("-", V("t2"), V("t3"))), ("decl", "Signal", "r3", B("-", V("t1"), V("t3")))], ["a"], ["r", "r2", "r3"], "value"),
    "each": ([IN["x"], IN["y"], ("decl", "Bundle", "bb", BUN), ("decl", "Bundle", "r", B("*", V("bb"), I(2)))], ["x", "y"], ["r"], "signals"),
    "filter": ([IN["x"], IN["y"], ("decl", "Bundle", "bb", BUN), ("decl", "Bundle", "r", ("cond", B(">", V("bb"), I(1)), V("bb")))], ["x", "y"], ["r"], "signals"),
    "anyall": ([IN["x"], IN["y"], ("decl", "Bundle", "bb", BUN), ("decl", "Signal", "r", B(">", ("any", V("bb")), I(2)))], ["x", "y"], ["r"], "value"),
    "entity": ([IN["a"], ("place", "lamp", "small-lamp", I(10), I(20), None), ("prop", "lamp", "enable", B(">", V("a"), I(2)))], ["a"], [], "value"),
    "entity-arith": ([IN["a"], ("place", "lamp", "inserter", I(10), I(22), None), ("prop", "lamp", "enable", B(">", B("*", V("a"), I(2)), I(5)))], ["a"], [], "value"),
    # a consumer 40 tiles from everything else: needs relay poles
    "entity-far": ([IN["a"], ("place", "lamp", "small-lamp", I(48), I(3), None), ("prop", "lamp", "enable", B(">", B("+", V("a"), I(1)), I(3)))], ["a"], [], "value"),
    # one source driving two consumers 40 tiles apart (relay corridor along the whole row)
    "entity-far2": ([IN["a"], ("decl", "Signal", "t1", B("+", V("a"), I(1))), ("place", "l1", "small-lamp", I(0), I(0), None),
                     ("place", "l2", "small-lamp", I(40), I(0), None), ("prop", "l1", "enable", B(">", V("t1"), I(3))),
                     ("prop", "l2", "enable", B(">", V("t1"), I(3)))], ["a"], [], "value"),
    # the same with unwired user lamps along the row (they keep the power-pole grid of that row alive)
    "entity-far4": ([IN["a"], ("decl", "Signal", "t1", B("*", V("a"), I(2))), ("place", "l1", "small-lamp", I(0), I(0), None),
                     ("prop", "l1", "enable", B(">", V("t1"), I(3))), ("place", "l2", "small-lamp", I(42), I(0), None),
                     ("prop", "l2", "enable", B(">", V("t1"), I(4))), ("place", "f1", "small-lamp", I(7), I(0), None),
                     ("place", "f2", "small-lamp", I(14), I(0), None), ("place", "f3", "small-lamp", I(28), I(0), None),
                     ("place", "f4", "small-lamp", I(35), I(0), None)], ["a"], [], "value"),
    "entity-far3": ([IN["a"], ("decl", "Signal", "t1", B("+", V("a"), I(1))), ("place", "l1", "small-lamp", I(0), I(0), None),
                     ("place", "l2", "small-lamp", I(28), I(0), None), ("prop", "l1", "enable", B(">", V("t1"), I(3))),
                     ("prop", "l2", "enable", B(">", V("t1"), I(3)))], ["a"], [], "value"),
    "cell": ([IN["a"], IN["t"], ("mem", "m", "signal-M"), ("write", "m", ("proj", V("a"), "signal-M"), B(">", V("t"), I(0))),
              ("decl", "Signal", "r", B("+", ("read", "m"), I(1)))], ["a", "t"], ["r"], "stateful"),
    # a write-gated cell ON signal-A (the type the other mini-programs compute with)
    "cell-on-A": ([IN["a"], IN["t"], ("mem", "m", "signal-A"), ("write", "m", V("a"), B(">", V("t"), I(0))),
                   ("decl", "Signal", "r", B("+", ("read", "m"), I(1)))], ["a", "t"], ["r"], "stateful"),
    "latch": ([IN["a"], ("mem", "l", "signal-L"), ("latch", "l", I(1), B("<", V("a"), I(2)), B(">=", V("a"), I(3)), "sr"),
               ("decl", "Signal", "r", B("*", ("read", "l"), I(2)))], ["a"], ["r"], "stateful"),
}
DOM = [0, 1, 3, -2]


def renamed(name, suffix, shift):
    stmts, inputs, outs, mode = MINI[name]
    stmts = gen.thaw(stmts)
    names = {n: n + suffix for n in lang.declared_names(stmts)}
    out = lang.subst_stmts(stmts, None, names)
    # move user entities apart
    if name in ("entity-far2", "entity-far3", "entity-far4"):     # the second copy runs two tiles below the first
        out = [("place", s[1], s[2], s[3], ("int", s[4][1] + (2 if shift else 0)), s[5]) if s[0] == "place" else s for s in out]
    else:
        out = [("place", s[1], s[2], ("int", s[3][1] + shift), s[4], s[5]) if s[0] == "place" else s for s in out]
    return out, [names[i] for i in inputs], [names[o] for o in outs], mode


def interleavings(p, q, limit):
    n, m = len(p), len(q)
    res = []
    for pos in itertools.combinations(range(n + m), n):
        pos = set(pos)
        it_p, it_q = iter(p), iter(q)
        res.append([next(it_p) if i in pos else next(it_q) for i in range(n + m)])
    if limit and len(res) > limit:
        step = len(res) / limit
        res = [res[int(i * step)] for i in range(limit)]
    return res


class C12(core.Check):
    pid = "C12"
    level = "model_checking"
    timeout = 400
    rule = ("all ordered pairs (P, Q) of a 20-program corpus (incl. three same-type producers meeting pairwise, a consumer 40 tiles away, also built with medium poles / substations) that reuse the same signal names and constants, names made "
            "disjoint, x order-preserving interleavings of their statements (thorough tier: all of them for a pair with at most 200, "
            "else 200 spread evenly over the lexicographic enumeration - only pairs among the 6- and 9-statement "
            "far-entity programs (and pairs of 5-statement ones) exceed 200; quick tier: 6 spread over the whole set); P's outputs and entity conditions in build(P;Q) are compared with "
            "build(P) for the full product of P's and Q's input values; stateful P by lock-step BFS over events on P's "
            "AND Q's inputs; non-trivial = P's outputs vary")
    assumptions = ["circuit model fv/sim.py"]

    def cases(self, tier):
        out = []
        names = list(MINI)     # (a free-running counter is not part of the corpus: a circuit that never
        # settles cannot be compared at settled states; C04 and C10 own counters)
        for pn in names:
            for qn in MINI:
                p = renamed(pn, "_p", 0)
                q = renamed(qn, "_q", 4)
                lim = 200 if tier == "thorough" else 6
                if tier == "quick" and MINI[pn][3].startswith("stateful"):
                    lim = 3
                for k, prog in enumerate(interleavings(p[0], q[0], lim)):
                    out.append({"P": pn, "Q": qn, "k": k, "stmts": prog, "p_stmts": p[0], "p_inputs": p[1], "q_inputs": q[1],
                                "p_outputs": p[2], "mode": p[3]})
                    if "entity" in pn and "entity" in qn and (k < 2 or ("far" in pn and "far" in qn)):
                        for poles in ("medium", "substation"):
                            out.append(dict(out[-1 if poles == "medium" else -2], poles=poles))
        if tier == "thorough":
            # triples: P with two others
            for pn in ("arith", "same-type", "each", "entity"):
                for qn, rn in (("merge", "untyped"), ("fanout", "filter"), ("same-type", "cond")):
                    p = renamed(pn, "_p", 0)
                    q = renamed(qn, "_q", 4)
                    r = renamed(rn, "_r", 8)
                    prog = list(q[0][:1]) + list(p[0][:1]) + list(r[0]) + list(q[0][1:]) + list(p[0][1:])
                    out.append({"P": pn, "Q": qn + "+" + rn, "k": 0, "stmts": prog, "p_stmts": p[0], "p_inputs": p[1],
                                "q_inputs": q[1] + r[1], "p_outputs": p[2], "mode": p[3]})
        return out

    def run_case(self, case):
        both = gen.thaw(case["stmts"])
        alone = gen.thaw(case["p_stmts"])
        pin, qin = case["p_inputs"], case["q_inputs"]
        opts = {"optimize": True}
        if case.get("poles"):
            opts["poles"] = case["poles"]
        A = {"stmts": both, "inputs": pin + qin, "opts": opts}
        Bs = {"stmts": alone, "inputs": pin, "opts": opts}
        if case["mode"].startswith("stateful"):
            dom = {i: [0, 1, 3] for i in pin + qin}
            r = explore.run_product_bfs(A, Bs, pin + qin, dom, case["p_outputs"], cap=1500, subset=True)
            return r
        dom = {i: DOM for i in pin}
        dom.update({i: [0, 3, -2] for i in qin})
        return explore.run_differential(A, Bs, dom, [(o, o) for o in case["p_outputs"]], mode=case["mode"],
                                        compare_entities="P")


if __name__ == "__main__":
    core.main_for(C12)
