"""C19 — the same source always yields the same logical circuit."""
from __future__ import annotations

import json
import os
import subprocess
import sys
import tempfile

from fv import canon, core, harness
from fv.corpus import CORPUS

SEEDS = [0, 1, 2, 3, 4, 5, 17, 42]
DEVIATIONS = [("stretch-x", 3), ("stretch-x", 5), ("stretch-y", 2), ("mirror-x",), ("lower-out", 4), ("hint-grid",),
              ("no-solution",)] + [("push", i, k) for i in range(4) for k in (10, 25)]
SWAPS = [("swap", i, j) for i in range(5) for j in range(i + 1, 5)]


def run_cli(src_path, seed=0, cwd=None, budget=0, history=(), noopt=False, history_files=()):
    env = dict(os.environ, PYTHONHASHSEED=str(seed), PYTHONPATH=f"{core.VERIF}:{harness.REPO}", PYTHONDONTWRITEBYTECODE="1")
    args = [sys.executable, "-m", "fv.canon_cli", "--src", src_path]
    if cwd:
        args += ["--cwd", cwd]
    if budget:
        args += ["--budget", str(budget)]
    for h in history:
        args += ["--history", h]
    for h in history_files:
        args += ["--history-file", h]
    pr = subprocess.run(args, env=env, capture_output=True, text=True, timeout=300, cwd=core.VERIF)
    if pr.returncode != 0 or not pr.stdout.strip():
        raise harness.HarnessError(f"canon_cli failed: {pr.stderr[-400:]}")
    return json.loads(pr.stdout.strip().splitlines()[-1])


class C19(core.Check):
    pid = "C19"
    level = "model_checking"
    timeout = 900
    rule = ("every program of a 16-program corpus x {8 hash seeds in fresh interpreters (quick: 5), 3 working directories (quick: 2), 3 solver budgets (quick: 2) "
            "mapped to deterministic time, every layout answer of the deviation menu (bound 1; incl. all exchanges of two of the first five combinators) and injected relay "
            "failures, every compile history 'Q then P' of length 2 in one process}; the canonical logical circuit (entity "
            "configurations + partition of connectors into networks, poles contracted, numbering/positions erased, "
            "canonicalised by colour refinement) must equal the baseline (seed 0, default answer, fresh process); "
            "states = compile histories/configurations explored, transitions = compilations; non-trivial = the "
            "variation produced a different placement or entity numbering than the baseline")
    assumptions = ["machine load / wall-clock budgets are covered by the deviation menu of feasible placements, not sampled",
                   "colour refinement can merge non-isomorphic circuits (missed difference) but never separates isomorphic ones"]

    def cases(self, tier):
        out = []
        names = list(CORPUS)
        for p in names:
            for g in ("seeds", "cwds", "budgets", "deviations", "faults", "histories"):
                out.append({"program": p, "group": g, "tier": tier})
        return out

    def run_case(self, case):
        src = CORPUS[case["program"]]
        g = case["group"]
        tier = case["tier"]
        with tempfile.TemporaryDirectory() as td:
            sp = os.path.join(td, "p.facto")
            open(sp, "w").write(src)
            base = run_cli(sp)
            if "rejected" in base:
                return {"status": "rejected", "detail": base["rejected"]}
            diffs = []
            n = 1
            moved = 0

            def cmp(tag, got):
                nonlocal n
                n += 1
                if "rejected" in got:
                    # a compilation that fails produces no circuit; not a different circuit
                    return
                if got["digest"] != base["digest"]:
                    diffs.append((tag, canon.explain_diff(base["form"], got["form"])))

            if g == "seeds":
                for s in (SEEDS[1:] if tier == "thorough" else (1, 2, 5, 17)):
                    cmp(f"seed={s}", run_cli(sp, seed=s))
            elif g == "cwds":
                os.mkdir(os.path.join(td, "empty"))
                for cwd in ((harness.REPO, "/", os.path.join(td, "empty")) if tier == "thorough" else (harness.REPO, os.path.join(td, "empty"))):
                    cmp(f"cwd={cwd if cwd in (harness.REPO, '/') else 'empty-dir'}", run_cli(sp, cwd=cwd))
            elif g == "budgets":
                for b in ((1, 5, 45) if tier == "thorough" else (1, 45)):
                    cmp(f"budget={b}", run_cli(sp, budget=b))
            elif g == "histories":
                qs = [q for q in CORPUS if q != case["program"]]
                if tier == "quick":
                    qs = qs[:: max(1, len(qs) // 5)][:5]
                for extra in ("hist-memory-named-counter", "cell"):       # always: programs that register labels
                    if extra not in qs and extra != case["program"]:
                        qs.append(extra)
                for q in qs:
                    qp = os.path.join(td, f"q_{q}.facto")
                    open(qp, "w").write(CORPUS[q])
                    cmp(f"history=[{q}]", run_cli(sp, history=[qp]))
                # an earlier compilation of a FILE whose directory holds files named like the later program's imports
                if "import " in src:
                    proj = os.path.join(td, "projA")
                    os.makedirs(os.path.join(proj, "lib"))
                    open(os.path.join(proj, "lib", "math.facto"), "w").write(
                        "func abs(Signal x) {\n    return x * 0 + 41;\n}\nfunc max(Signal a, Signal b) {\n    return a * 0 + 1;\n}\n"
                        "func clamp(Signal x, int low, int high) {\n    return x * 0 + 2;\n}\n")
                    open(os.path.join(proj, "mainA.facto"), "w").write('import "lib/math.facto";\nSignal z = ("signal-Z", 3);\nSignal w = abs(z);\n')
                    cmp("history=[file projA/mainA.facto with its own lib/math.facto]", run_cli(sp, history_files=[os.path.join(proj, "mainA.facto")]))
                if tier == "thorough":
                    for q1, q2 in (("bundle", "cell"), ("untyped", "fanout8"), ("latch-sr", "untyped")):
                        hp = []
                        for q in (q1, q2):
                            qp = os.path.join(td, f"q_{q}.facto")
                            open(qp, "w").write(CORPUS[q])
                            hp.append(qp)
                        cmp(f"history=[{q1},{q2}]", run_cli(sp, history=hp))
            else:
                # in-process: this forked child (history: [warm-up, P]) with layout deviations / relay faults
                def local(tag, **kw):
                    nonlocal moved
                    try:
                        bp = harness.compile_src(src, **kw)
                    except harness.Rejected:
                        return
                    d, form = canon.canonical(bp)
                    cmp(tag, {"digest": d, "form": form})
                local("in-process")
                if g == "deviations":
                    devs = DEVIATIONS + SWAPS if tier == "quick" else DEVIATIONS + SWAPS + [("stretch-x", 9), ("push", 5, 40), ("push", 6, 10)] + \
                        [("swap", i, j) for i in range(8) for j in range(max(i + 1, 5), 8)]
                    for dv in devs:
                        local(f"deviation={dv}", deviation=dv)
                    if tier == "thorough":
                        for d1 in (("stretch-x", 3), ("mirror-x",)):
                            for j in range(2):
                                local(f"deviation={d1}+fault{j}", deviation=d1, faults=[(0, j)])
                else:
                    for j in range(4):
                        local(f"fault=(0,{j})", faults=[(0, j)])
                    local("fault=(0,0)+(1,0)", faults=[(0, 0), (1, 0)])
                    local("noopt-vs-noopt", optimize=True)
        res = {"evaluations": n, "states": n, "transitions": n, "traces": n, "compiles": n, "nontrivial": True,
               "sample": {"program": case["program"], "group": g, "variations": n - 1, "baseline_digest": base["digest"]}}
        if diffs:
            res["status"] = "fail"
            res["digest"] = core.sha([d[0] for d in diffs])
            res["detail"] = {"src": src, "group": g, "differs_from_baseline": diffs[:6], "n_differing": len(diffs)}
        else:
            res["status"] = "pass"
        return res


if __name__ == "__main__":
    core.main_for(C19)
