"""C03 — a gated memory cell latches the written value and holds it.  Explicit-state BFS over
input histories on the emitted circuit, against a three-line reference cell."""
from __future__ import annotations

from fv import core, explore, gen, lang
from fv.lang import B, I, V

DATA = {
    "d": V("d"),
    "d+1": B("+", V("d"), I(1)),
    "d*c": B("*", V("d"), V("c")),
    "d-c": B("-", V("d"), V("c")),
    "k5": I(5),          # a constant written under a run-time enable
}
ENABLE = {
    "t>0": B(">", V("t"), I(0)),
    "t": V("t"),
    "t>1": B(">", V("t"), I(1)),
    "t>0&&s>0": B("&&", B(">", V("t"), I(0)), B(">", V("s"), I(0))),
    "t+s>0": B(">", B("+", V("t"), V("s")), I(0)),
    "one": I(1),         # a constant enable: the cell follows the data
    "2>1": B(">", I(2), I(1)),
    "two": I(2),         # any positive constant enables
    "zero": I(0),        # never enabled: the cell stays 0
}
SHARED = {   # enable shares an input with the data
    "d>2": (V("d"), B(">", V("d"), I(2))),
    "d+t|t>0": (B("+", V("d"), V("t")), B(">", V("t"), I(0))),
}
READERS = {
    "bare": ["bare"], "arith": ["arith"], "arith+cmp": ["arith", "cmp"],
    "arith+cmp+lamp": ["arith", "cmp", "lamp"], "bare+arith": ["bare", "arith"], "none-but-lamp": ["lamp"],
    "mix+arith": ["mix", "arith"],
}
DOM = {"d": [0, 1, 5, -3], "c": [0, 1, 2], "t": [0, 1, 2], "s": [0, 1, 2]}


def program(vexpr, cexpr, explicit, readers, cell="m", suffix=""):
    body = []
    if explicit:
        body.append(("mem", cell, "signal-M"))
        body.append(("write", cell, ("proj", vexpr, "signal-M"), cexpr))
    else:
        body.append(("mem", cell, None))
        body.append(("write", cell, vexpr, cexpr))
    outs = []
    ents = {}
    for r in readers:
        if r == "bare":
            body.append(("decl", "Signal", "o0" + suffix, ("read", cell)))
            outs.append("o0" + suffix)
        elif r == "arith":
            body.append(("decl", "Signal", "o1" + suffix, B("+", ("read", cell), I(1))))
            outs.append("o1" + suffix)
        elif r == "cmp":
            body.append(("decl", "Signal", "o2" + suffix, B(">", ("read", cell), I(2))))
            outs.append("o2" + suffix)
        elif r == "mix":
            wv = ("proj", vexpr, "signal-M") if explicit else vexpr
            body.append(("decl", "Signal", "o3" + suffix, B("-", wv, ("read", cell))))
            outs.append("o3" + suffix)
        elif r == "lamp":
            body.append(("place", "lamp" + suffix, "small-lamp", I(0), I(-6), None))
            body.append(("prop", "lamp" + suffix, "enable", B(">", ("read", cell), I(0))))
            ents["lamp" + suffix] = ("small-lamp", 0, -6)
    return body, outs, ents


def mk(family, vname, cname, vexpr, cexpr, explicit, rname, optimize=True):
    body, outs, ents = program(vexpr, cexpr, explicit, READERS[rname])
    used = set()
    gen.vars_in(vexpr, used)
    gen.vars_in(cexpr, used)
    inputs = [n for n in gen.INPUT_DECL if n in used]
    return {"family": family, "v": vname, "c": cname, "explicit": explicit, "readers": rname,
            "stmts": gen.prog_with_inputs(inputs, body), "inputs": inputs,
            "domains": {i: DOM[i] for i in inputs}, "outputs": outs, "entities": ents,
            "vexpr": vexpr, "cexpr": cexpr, "opts": {"optimize": optimize}}


TWO = {
    # tag -> (data1, enable1, data2, enable2); cell 2 may read cell 1
    "same-enable-expr": (V("d"), B(">", V("t"), I(0)), V("c"), B(">", V("t"), I(0))),
    "same-enable-arith": (V("d"), B(">", B("+", V("t"), V("s")), I(0)), V("c"), B(">", B("+", V("t"), V("s")), I(0))),
    "same-data-expr": (B("+", V("d"), I(1)), B(">", V("t"), I(0)), B("+", V("d"), I(1)), B(">", V("s"), I(0))),
    "different": (V("d"), B(">", V("t"), I(0)), V("c"), B(">", V("s"), I(0))),
    "identical-cells": (V("d"), B(">", V("t"), I(0)), V("d"), B(">", V("t"), I(0))),
    "chained": (V("d"), B(">", V("t"), I(0)), ("read", "m1"), B(">", V("s"), I(0))),
    "raw-enable-shared": (V("d"), V("t"), V("c"), V("t")),
    # one named arithmetic result is the data of one cell and the (raw) enable of the other
    "arith-data-and-enable": (V("dm"), B(">", V("t"), I(0)), V("c"), V("dm")),
    "arith-enable-twice": (V("d"), V("dm"), V("c"), V("dm")),
    "cmp-data-and-enable": (V("cm"), B(">", V("t"), I(0)), V("c"), V("cm")),
}
PRE = {"dm": ("decl", "Signal", "dm", B("*", V("d"), V("s"))), "cm": ("decl", "Signal", "cm", B(">", V("d"), I(0)))}


def two_cell_cases(tier):
    out = []
    for tag, (v1, c1, v2, c2) in TWO.items():
        for explicit in (True, False):
            used0 = set()
            for e in (v1, c1, v2, c2):
                gen.vars_in(e, used0)
            pre = [PRE[n] for n in PRE if n in used0]
            body = list(pre)
            for cell, v, c in (("m1", v1, c1), ("m2", v2, c2)):
                if explicit:
                    body += [("mem", cell, "signal-M"), ("write", cell, ("proj", v, "signal-M"), c)]
                else:
                    body += [("mem", cell, None), ("write", cell, v, c)]
            body += [("decl", "Signal", "p1", B("+", ("read", "m1"), I(1))), ("decl", "Signal", "p2", B("+", ("read", "m2"), I(2)))]
            used = set()
            for e in (v1, c1, v2, c2) + tuple(p[3] for p in pre):
                gen.vars_in(e, used)
            inputs = [n for n in gen.INPUT_DECL if n in used]
            dom = {"d": [0, 1, 5], "c": [0, 2, 7], "t": [0, 1], "s": [0, 1]}
            out.append({"family": "two-cells", "tag": tag, "pre": pre, "explicit": explicit, "stmts": gen.prog_with_inputs(inputs, body),
                        "inputs": inputs, "domains": {i: dom[i] for i in inputs}, "outputs": ["p1", "p2"],
                        "exprs": [v1, c1, v2, c2], "opts": {"optimize": True}})
    return out


def run_two_cells(case):
    stmts = gen.thaw(case["stmts"])
    v1, c1, v2, c2 = (gen.thaw(e) for e in case["exprs"])
    inputs = case["inputs"]
    decls = [gen.INPUT_DECL[i] for i in inputs]

    pre = gen.thaw(case.get("pre") or [])

    def step(q, val):
        q1, q2 = q
        env = lang.Env(val)
        lang.run(decls + list(pre), env)
        env.mem_read = lambda m: lang.Sig(None, q1)       # cell 2 may read cell 1 (its previous settled value)
        n1 = lang.val(lang.ev(v1, env)) if lang.val(lang.ev(c1, env)) > 0 else q1
        env.mem_read = lambda m: lang.Sig(None, n1)
        n2 = lang.val(lang.ev(v2, env)) if lang.val(lang.ev(c2, env)) > 0 else q2
        return (n1, n2)

    def types():
        env = lang.Env({i: 1 for i in inputs})
        lang.run(decls + list(gen.thaw(case.get("pre") or [])), env)
        env.mem_read = lambda m: lang.Sig(None, 0)
        t1 = "signal-M" if case["explicit"] else lang.ev(v1, env).type
        env.mem_read = lambda m: lang.Sig(t1, 0)
        t2 = "signal-M" if case["explicit"] else lang.ev(v2, env).type
        return t1, t2
    t1, t2 = types()

    def ref_step(q, val, event):
        return [step(q or (0, 0), val)]

    def ref_expect(q, val):
        return {"p1": lang.Sig(t1, q[0] + 1), "p2": lang.Sig(t2, q[1] + 2)}
    return explore.run_bfs(stmts, inputs, case["domains"], case["opts"], case["outputs"], None, ref_step, ref_expect)


class C03(core.Check):
    pid = "C03"
    level = "model_checking"
    timeout = 300
    rule = ("explicit-state BFS to closure from the power-on state over events 'set one input to another value of "
            "its domain, hold until settled'; one case = one program (data form x enable form x explicit/inferred "
            "cell type x reader set); state = (all combinator outputs, input valuation, reference cell); every "
            "(data and enable forms include a constant datum and constant enables; family declared-one explores the blueprint compiled with every input declared as 1) transition is executed on the emitted blueprint and compared with the reference cell "
            "q := v if c>0 else q at every reader; non-trivial = at least two different observations were reached")
    assumptions = ["circuit model fv/sim.py", "reference cell: q := v if c > 0 else q, initially 0",
                   "raw-signal enables explored for values >= 0 only",
                   "a step that changes v and drops c through one shared input may latch the old or the new v"]

    def cases(self, tier):
        out = []
        for vn, ve in DATA.items():
            for cn, ce in ENABLE.items():
                for explicit in (True, False):
                    if vn == "k5" and cn in ("one", "2>1", "two", "zero"):
                        continue
                    rs = READERS if (tier == "thorough" or (vn in ("d", "d*c") and cn in ("t>0", "t", "t>0&&s>0"))) \
                        else {"arith+cmp": 0, "bare": 0, "mix+arith": 0}
                    for rn in rs:
                        out.append(mk("disjoint", vn, cn, ve, ce, explicit, rn))
        for sn, (ve, ce) in SHARED.items():
            for explicit in (True, False):
                for rn in ("arith+cmp", "bare"):
                    out.append(mk("shared", sn, sn, ve, ce, explicit, rn))
        # the blueprint compiled with the enable input DECLARED as 1 (and the data as 1): the declared values are only
        # initial values, the histories change them afterwards
        for vn, cn in (("d", "t"), ("d", "t>0"), ("d*c", "t"), ("d+1", "t>0&&s>0")):
            for explicit in (True, False):
                k = mk("declared-one", vn, cn, DATA[vn], ENABLE[cn], explicit, "arith+cmp")
                k["opts"] = {"optimize": True, "declared": [1] * len(k["inputs"])}
                out.append(k)
        out += two_cell_cases(tier)
        if tier == "thorough":
            out += [dict(c, opts=dict(c["opts"], optimize=False)) for c in list(out)]
        return out

    def run_case(self, case):
        if case["family"] == "two-cells":
            return run_two_cells(case)
        stmts = gen.thaw(case["stmts"])
        vexpr, cexpr = gen.thaw(case["vexpr"]), gen.thaw(case["cexpr"])
        inputs = case["inputs"]
        decls = [gen.INPUT_DECL[i] for i in inputs]
        cin = gen.vars_in(cexpr)
        vin = gen.vars_in(vexpr)

        def vc(val):
            env = lang.Env(val)
            lang.run(decls, env)
            v = lang.ev(vexpr, env)
            c = lang.ev(cexpr, env)
            return lang.Sig(getattr(v, "type", None), lang.val(v)), lang.val(c)

        celltype = "signal-M" if case["explicit"] else vc({i: 1 for i in inputs})[0].type

        def ref_step(q, val, event):
            v, c = vc(val)
            if q is None:   # power on
                return [v.value if c > 0 else 0]
            if c > 0:
                return [v.value]
            if event and event[0] in cin and event[0] in vin:
                return [q, v.value]     # shared input: v changed and c dropped at once
            return [q]

        def ref_expect(q, val):
            exp = {}
            for o in case["outputs"]:
                if o == "o0":
                    exp[o] = lang.Sig(celltype, q)
                elif o == "o1":
                    exp[o] = lang.Sig(celltype, q + 1)
                elif o == "o2":
                    exp[o] = lang.Sig(celltype, 1 if q > 2 else 0)
                elif o == "o3":
                    exp[o] = lang.Sig(celltype, vc(val)[0].value - q)
            for e in case["entities"]:
                exp[e] = q > 0
            return exp

        def hold(q, cands, event):
            # a change of a data-only input while the enable is zero must never show at a reader
            return event[0] not in cin and cands == [q]

        return explore.run_bfs(stmts, inputs, case["domains"], case["opts"], case["outputs"],
                               None, ref_step, ref_expect, entities=gen.thaw(case["entities"]) and
                               {k: tuple(v) for k, v in case["entities"].items()}, hold=hold)


if __name__ == "__main__":
    core.main_for(C03)
