"""C03 — a gated memory cell latches the written value and holds it.  Explicit-state BFS over
input histories on the emitted circuit, against a three-line reference cell."""
from __future__ import annotations

from fv import core, explore, gen, lang
from fv.lang import B, I, V

DATA = {
    "d": V("d"),
    "d+1": B("+", V("d"), I(1)),
    "d*c": B("*", V("d"), V("c")),
    "d-c": B("-", V("d"), V("c")),
}
ENABLE = {
    "t>0": B(">", V("t"), I(0)),
    "t": V("t"),
    "t>1": B(">", V("t"), I(1)),
    "t>0&&s>0": B("&&", B(">", V("t"), I(0)), B(">", V("s"), I(0))),
    "t+s>0": B(">", B("+", V("t"), V("s")), I(0)),
}
SHARED = {   # enable shares an input with the data
    "d>2": (V("d"), B(">", V("d"), I(2))),
    "d+t|t>0": (B("+", V("d"), V("t")), B(">", V("t"), I(0))),
}
READERS = {
    "bare": ["bare"], "arith": ["arith"], "arith+cmp": ["arith", "cmp"],
    "arith+cmp+lamp": ["arith", "cmp", "lamp"], "bare+arith": ["bare", "arith"], "none-but-lamp": ["lamp"],
}
DOM = {"d": [0, 1, 5, -3], "c": [0, 1, 2], "t": [0, 1, 2], "s": [0, 1, 2]}


def program(vexpr, cexpr, explicit, readers, cell="m", suffix=""):
    body = []
    if explicit:
        body.append(("mem", cell, "signal-M"))
        body.append(("write", cell, ("proj", vexpr, "signal-M"), cexpr))
    else:
        body.append(("mem", cell, None))
        body.append(("write", cell, vexpr, cexpr))
    outs = []
    ents = {}
    for r in readers:
        if r == "bare":
            body.append(("decl", "Signal", "o0" + suffix, ("read", cell)))
            outs.append("o0" + suffix)
        elif r == "arith":
            body.append(("decl", "Signal", "o1" + suffix, B("+", ("read", cell), I(1))))
            outs.append("o1" + suffix)
        elif r == "cmp":
            body.append(("decl", "Signal", "o2" + suffix, B(">", ("read", cell), I(2))))
            outs.append("o2" + suffix)
        elif r == "lamp":
            body.append(("place", "lamp" + suffix, "small-lamp", I(0), I(-6), None))
            body.append(("prop", "lamp" + suffix, "enable", B(">", ("read", cell), I(0))))
            ents["lamp" + suffix] = ("small-lamp", 0, -6)
    return body, outs, ents


def mk(family, vname, cname, vexpr, cexpr, explicit, rname, optimize=True):
    body, outs, ents = program(vexpr, cexpr, explicit, READERS[rname])
    used = set()
    gen.vars_in(vexpr, used)
    gen.vars_in(cexpr, used)
    inputs = [n for n in gen.INPUT_DECL if n in used]
    return {"family": family, "v": vname, "c": cname, "explicit": explicit, "readers": rname,
            "stmts": gen.prog_with_inputs(inputs, body), "inputs": inputs,
            "domains": {i: DOM[i] for i in inputs}, "outputs": outs, "entities": ents,
            "vexpr": vexpr, "cexpr": cexpr, "opts": {"optimize": optimize}}


class C03(core.Check):
    pid = "C03"
    level = "model_checking"
    timeout = 300
    rule = ("explicit-state BFS to closure from the power-on state over events 'set one input to another value of "
            "its domain, hold until settled'; one case = one program (data form x enable form x explicit/inferred "
            "cell type x reader set); state = (all combinator outputs, input valuation, reference cell); every "
            "transition is executed on the emitted blueprint and compared with the reference cell "
            "q := v if c>0 else q at every reader; non-trivial = at least two different observations were reached")
    assumptions = ["circuit model fv/sim.py", "reference cell: q := v if c > 0 else q, initially 0",
                   "raw-signal enables explored for values >= 0 only",
                   "a step that changes v and drops c through one shared input may latch the old or the new v"]

    def cases(self, tier):
        out = []
        for vn, ve in DATA.items():
            for cn, ce in ENABLE.items():
                for explicit in (True, False):
                    rs = READERS if (tier == "thorough" or (vn in ("d", "d*c") and cn in ("t>0", "t", "t>0&&s>0"))) \
                        else {"arith+cmp": 0, "bare": 0}
                    for rn in rs:
                        out.append(mk("disjoint", vn, cn, ve, ce, explicit, rn))
        for sn, (ve, ce) in SHARED.items():
            for explicit in (True, False):
                for rn in ("arith+cmp", "bare"):
                    out.append(mk("shared", sn, sn, ve, ce, explicit, rn))
        if tier == "thorough":
            out += [dict(c, opts={"optimize": False}) for c in list(out)]
        return out

    def run_case(self, case):
        stmts = gen.thaw(case["stmts"])
        vexpr, cexpr = gen.thaw(case["vexpr"]), gen.thaw(case["cexpr"])
        inputs = case["inputs"]
        decls = [gen.INPUT_DECL[i] for i in inputs]
        cin = gen.vars_in(cexpr)
        vin = gen.vars_in(vexpr)

        def vc(val):
            env = lang.Env(val)
            lang.run(decls, env)
            v = lang.ev(vexpr, env)
            c = lang.ev(cexpr, env)
            return v, lang.val(c)

        celltype = "signal-M" if case["explicit"] else vc({i: 1 for i in inputs})[0].type

        def ref_step(q, val, event):
            v, c = vc(val)
            if q is None:   # power on
                return [v.value if c > 0 else 0]
            if c > 0:
                return [v.value]
            if event and event[0] in cin and event[0] in vin:
                return [q, v.value]     # shared input: v changed and c dropped at once
            return [q]

        def ref_expect(q, val):
            exp = {}
            for o in case["outputs"]:
                if o == "o0":
                    exp[o] = lang.Sig(celltype, q)
                elif o == "o1":
                    exp[o] = lang.Sig(celltype, q + 1)
                elif o == "o2":
                    exp[o] = lang.Sig(celltype, 1 if q > 2 else 0)
            for e in case["entities"]:
                exp[e] = q > 0
            return exp

        def hold(q, cands, event):
            # a change of a data-only input while the enable is zero must never show at a reader
            return event[0] not in cin and cands == [q]

        return explore.run_bfs(stmts, inputs, case["domains"], case["opts"], case["outputs"],
                               None, ref_step, ref_expect, entities=gen.thaw(case["entities"]) and
                               {k: tuple(v) for k, v in case["entities"].items()}, hold=hold)


if __name__ == "__main__":
    core.main_for(C03)
