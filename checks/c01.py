"""C01 — scalar expressions compute what the source says, for every input."""
from __future__ import annotations

from fv import core, explore, gen, lang
from fv.lang import ARITH, CMP, B, I, V

SIG_LEAVES = ["a", "b", "c", "i", "u"]
INT_LEAVES = [0, 1, 3, -2]
BINOPS = list(ARITH) + list(CMP) + ["&&", "||", "and", "or"]
REP = ["+", "-", "*", "/", "<<", "AND", "<", "==", "&&", "||"]   # one representative per class


def leaf(x):
    return V(x) if isinstance(x, str) else I(x)


def bad_const_rhs(op, r):
    """literal right operands outside the modelled fragment"""
    if r[0] == "int":
        if op in ("<<", ">>") and not 0 <= r[1] <= 31:
            return True
        if op == "**" and not 0 <= r[1] <= 5:
            return True
    return False


def mk(family, body, outputs, optimize=True, extra_dom=None):
    body = [gen.thaw(s) for s in body]
    exprs = [s[3] for s in body if s[0] == "decl"]
    used = set()
    for e in exprs:
        gen.vars_in(e, used)
    inputs = [n for n in gen.INPUT_DECL if n in used]
    dom = gen.role_domains(exprs, inputs, extra_dom)
    return {"family": family, "stmts": gen.prog_with_inputs(inputs, body), "inputs": inputs,
            "domains": dom, "outputs": outputs, "opts": {"optimize": optimize}}


def S1():
    leaves = SIG_LEAVES + INT_LEAVES
    for op in BINOPS:
        for l in leaves:
            for r in leaves:
                L, R = leaf(l), leaf(r)
                if bad_const_rhs(op, R):
                    continue
                yield mk("S1", [("decl", "Signal", "r", B(op, L, R))], ["r"])


def S2():
    for op in ("-", "!", "+"):
        for l in SIG_LEAVES + INT_LEAVES:
            yield mk("S2", [("decl", "Signal", "r", ("un", op, leaf(l)))], ["r"])
    # unary inside binary, double unary
    for op in ("-", "!"):
        yield mk("S2", [("decl", "Signal", "r", B("+", ("un", op, V("a")), V("c")))], ["r"])
        yield mk("S2", [("decl", "Signal", "r", B("*", V("c"), ("un", op, V("a"))))], ["r"])
        yield mk("S2", [("decl", "Signal", "r", ("un", op, ("un", op, V("a"))))], ["r"])
        yield mk("S2", [("decl", "Signal", "r", B("**", ("un", op, V("a")), I(2)))], ["r"])
        yield mk("S2", [("decl", "Signal", "r", ("un", op, B("+", V("a"), V("c"))))], ["r"])


def S3(triples):
    ops = list(ARITH) + list(CMP) + ["&&", "||"]
    for tri in triples:
        x, y, z = (leaf(v) for v in tri)
        for op1 in ops:
            for op2 in ops:
                if bad_const_rhs(op1, y) or bad_const_rhs(op2, z):
                    continue
                yield mk("S3", [("decl", "Signal", "r", ("flat", x, op1, y, op2, z))], ["r"])


def S4():
    for cmp_ in CMP:
        for x in ("a", "c", 3):
            for y in ("b", "c", "i", 2, "a"):
                if x == y:
                    continue
                for v in (5, "a", "b", "c", "i", "u"):
                    yield mk("S4", [("decl", "Signal", "r", ("cond", B(cmp_, leaf(x), leaf(y)), leaf(v)))], ["r"])
    for lg in ("&&", "||"):
        for v in (5, "a", "i", "b"):
            c = B(lg, B(">", V("a"), I(1)), B("<", V("c"), I(5)))
            yield mk("S4", [("decl", "Signal", "r", ("cond", ("paren", c), leaf(v)))], ["r"])
            c2 = B(lg, B(">", V("a"), I(3)), B("<", V("b"), I(10)))      # same-type operands
            yield mk("S4", [("decl", "Signal", "r", ("cond", ("paren", c2), leaf(v)))], ["r"])
            c3 = B(lg, B(lg, B(">", V("a"), I(1)), B("<", V("c"), I(5))), B("==", V("i"), I(2)))
            yield mk("S4", [("decl", "Signal", "r", ("cond", ("paren", c3), leaf(v)))], ["r"])
            c4 = B(lg, B(">", V("a"), V("c")), B("!=", V("i"), V("a")))
            yield mk("S4", [("decl", "Signal", "r", ("cond", ("paren", c4), leaf(v)))], ["r"])
    # precedence of ':' below comparison, above &&
    yield mk("S4", [("decl", "Signal", "r", ("cond", B(">", V("a"), I(2)), V("c")))], ["r"])
    yield mk("S4", [("decl", "Signal", "r", B("&&", B(">", V("a"), I(2)), ("cond", B("<", V("c"), I(3)), I(5))))], ["r"])
    yield mk("S4", [("decl", "Signal", "r", B("+", ("cond", B(">", V("a"), I(0)), V("a")), ("cond", B("<=", V("a"), I(0)), V("c"))))], ["r"])
    # selection pattern from the spec
    yield mk("S4", [("decl", "Signal", "r", B("+", ("cond", B(">", V("t"), I(0)), V("a")), ("cond", B("==", V("t"), I(0)), V("c"))))], ["r"])


CLASSES = ["+", "-", "*", "/", "<<", "AND", "<", "==", "&&", "||", "cond", "proj", "neg", "not"]


def build(cls, l, r):
    if cls == "cond":
        return ("cond", B(">", l, I(1)), r)
    if cls == "proj":
        return ("proj", l, "signal-D")
    if cls == "neg":
        return ("un", "-", l)
    if cls == "not":
        return ("un", "!", l)
    return B(cls, l, r)


def S5(full):
    triples = [("a", "c", "i"), ("a", "b", 3)]
    for tri in triples:
        x, y, z = (leaf(v) for v in tri)
        for inner in CLASSES:
            ie = build(inner, x, y)
            for outer in CLASSES:
                forms = [build(outer, ie, z)]
                if full and outer not in ("proj", "neg", "not"):
                    forms.append(build(outer, z, ie))
                for f in forms:
                    if outer == "cond" and f[2][0] != "var" and f[2][0] != "int":
                        f = ("cond", f[1], ("paren", f[2]))
                    bad = False
                    for e in (f, ie):
                        if e[0] == "bin" and bad_const_rhs(e[1], e[3]):
                            bad = True
                    if not bad:
                        yield mk("S5", [("decl", "Signal", "r", f)], ["r"])


def S6():
    for op in REP:
        for pair in (("a", "c"), ("a", "b"), ("a", 3)):
            x, y = leaf(pair[0]), leaf(pair[1])
            t = ("decl", "Signal", "t1", B(op, x, y))
            for op2 in ("+", "-", "*", "<", "==", "&&"):
                yield mk("S6", [t, ("decl", "Signal", "r", B(op2, V("t1"), V("t1")))], ["r"])
                yield mk("S6", [t, ("decl", "Signal", "r", B(op2, V("t1"), x))], ["r"])
                yield mk("S6", [t, ("decl", "Signal", "r", B(op2, x, V("t1")))], ["r"])
            yield mk("S6", [t, ("decl", "Signal", "r1", B("+", V("t1"), I(1))),
                            ("decl", "Signal", "r2", B("*", V("t1"), I(2)))], ["r1", "r2"])
            # the same expression twice under two names (CSE candidates)
            yield mk("S6", [("decl", "Signal", "r1", B(op, x, y)), ("decl", "Signal", "r2", B("+", B(op, x, y), I(1)))],
                     ["r1", "r2"])


def S8():
    """several results sharing one input, each with its own same-typed anonymous constant"""
    for op in ("*", "+", "-", ">"):
        for t in ("signal-C", "signal-A"):
            yield mk("S8", [("decl", "Signal", "r1", B(op, ("lit", t, I(2)), V("a"))),
                            ("decl", "Signal", "r2", B(op, ("lit", t, I(3)), V("a")))], ["r1", "r2"])
            yield mk("S8", [("decl", "Signal", "r1", B(op, V("a"), ("lit", t, I(2)))),
                            ("decl", "Signal", "r2", B(op, V("c"), ("lit", t, I(3))))], ["r1", "r2"])
    yield mk("S8", [("decl", "Signal", "k1", ("lit", "signal-C", I(2))), ("decl", "Signal", "k2", ("lit", "signal-C", I(3))),
                    ("decl", "Signal", "r1", B("*", V("k1"), V("a"))), ("decl", "Signal", "r2", B("*", V("k2"), V("a")))], ["r1", "r2"])
    # two results sharing both inputs (an arithmetic chain and a conditional copy)
    yield mk("S8", [("decl", "Signal", "r1", B("+", B("*", V("c"), V("d")), V("a"))),
                    ("decl", "Signal", "r2", ("cond", B(">", V("c"), V("d")), V("a")))], ["r1", "r2"])
    yield mk("S8", [("decl", "Signal", "r1", B("*", V("c"), V("d"))), ("decl", "Signal", "r2", B(">", V("c"), V("d")))], ["r1", "r2"])
    yield mk("S8", [("decl", "Signal", "r1", B("*", V("c"), V("a"))), ("decl", "Signal", "r2", B("*", V("d"), V("a"))),
                    ("decl", "Signal", "r3", B("-", V("a"), V("c")))], ["r1", "r2", "r3"])


def S9():
    """the dedicated CSE / folding corpus of C10 (repeated sub-expressions that differ in exactly one of operator,
    operand, output type, output mode; fan-out), here against the reference instead of the unoptimised build"""
    from checks import c10
    for tag, body, _, _ in c10.dedicated():
        if tag.startswith(("bundle", "ent-")):
            continue
        body = [gen.thaw(s) for s in body]
        outs = [s[2] for s in body if s[0] == "decl" and s[1] == "Signal" and s[2].startswith("r")]
        c = mk("S9", body, outs)
        c["tag"] = tag
        yield c
    A, Bb = V("a"), V("b")
    # a value fanning out to its own projection and to a combinator reading both; same-named chain
    yield mk("S9", [("decl", "Signal", "s1", B("*", A, I(3))), ("decl", "Signal", "c1", ("proj", V("s1"), "signal-B")),
                    ("decl", "Signal", "t1", B("*", V("s1"), V("c1"))), ("decl", "Signal", "r1", B("+", V("t1"), V("s1")))], ["r1"])
    yield mk("S9", [("decl", "Signal", "s1", B("*", B("+", V("i"), ("proj", V("c"), "iron-plate")), I(3))),
                    ("decl", "Signal", "c1", ("proj", V("s1"), "copper-plate")), ("decl", "Signal", "t1", B("+", V("s1"), V("c1"))),
                    ("decl", "Signal", "r1", B("*", V("t1"), I(2)))], ["r1"])
    yield mk("S9", [("decl", "Signal", "s1", ("proj", B("+", V("x"), I(1)), "signal-X")), ("decl", "Signal", "a1", ("proj", B("+", V("s1"), I(1)), "signal-X")),
                    ("decl", "Signal", "r1", ("proj", B("*", V("s1"), V("a1")), "signal-X"))], ["r1"])
    # a NAMED sub-result projected indirectly (through a helper function / a unary plus) and also used directly
    tox = ("func", "tox", [("Signal", "v")], [], ("proj", V("v"), "signal-X"))
    s1 = ("decl", "Signal", "s1", B("*", A, V("c")))
    r2 = ("decl", "Signal", "r2", ("proj", B("+", V("s1"), I(1)), "signal-D"))
    yield mk("S9", [tox, s1, ("decl", "Signal", "r1", ("call", "tox", [V("s1")])), r2], ["r1", "r2"])
    yield mk("S9", [s1, ("decl", "Signal", "r1", ("proj", ("un", "+", V("s1")), "signal-X")), r2], ["r1", "r2"])
    yield mk("S9", [s1, ("decl", "Signal", "r1", ("proj", V("s1"), "signal-X")), r2], ["r1", "r2"])
    yield mk("S9", [tox, ("decl", "Signal", "s1", B(">", A, V("c"))), ("decl", "Signal", "r1", ("call", "tox", [V("s1")])),
                    ("decl", "Signal", "r2", B("+", V("s1"), V("i")))], ["r1", "r2"])
    # one product projected to two types and both consumed again
    yield mk("S9", [("decl", "Signal", "x1", ("proj", B("*", A, Bb), "signal-X")), ("decl", "Signal", "y1", ("proj", B("*", A, Bb), "signal-Y")),
                    ("decl", "Signal", "r1", B("-", V("x1"), V("y1"))), ("decl", "Signal", "r2", B("*", V("y1"), I(2)))], ["r1", "r2"])
    yield mk("S9", [("decl", "Signal", "x1", ("proj", B(">", A, I(2)), "signal-X")), ("decl", "Signal", "y1", ("proj", B(">", A, I(2)), "signal-Y")),
                    ("decl", "Signal", "r1", B("+", V("x1"), V("y1"))), ("decl", "Signal", "r2", B("*", V("y1"), V("c")))], ["r1", "r2"])


def S10():
    """candidates for algebraic rewriting ("strength reduction"): every arithmetic operator with a constant that is a power of
    two, its negative, or another identity-prone value on either side of a COMPUTED operand (a direct read of an input is
    treated differently by the optimiser), over inputs that make the operand negative, odd and large."""
    A, Bb = V("a"), V("b")
    dom = {"a": [0, 1, -1, 2, -7, 5, -8, 2147483647, -2147483648], "b": [0, 1, -3]}
    for opnd_tag, opnd in (("sum", B("+", A, Bb)), ("neg", B("*", A, I(-1))), ("input", A)):
        for op in lang.ARITH:
            for k in (2, 4, 8, 1024, -2, -4, 65536, 31, 32, 7):
                for swap in (False, True):
                    if op in ("<<", ">>", "**") and (k < 0 or k > 31 or (op == "**" and k > 5)) and not swap:
                        continue
                    if swap and op in ("<<", ">>", "**"):
                        continue   # a run-time shift count / exponent outside the modelled fragment
                    e = B(op, I(k), ("paren", opnd)) if swap else B(op, ("paren", opnd), I(k))
                    used = {"a": dom["a"]}
                    if opnd_tag == "sum":
                        used["b"] = dom["b"]
                    yield mk("S10", [("decl", "Signal", "r", e)], ["r"], extra_dom=used)
                    if opnd_tag == "sum" and not swap:
                        # the same through an int variable and a folded constant expression
                        yield mk("S10", [("decl", "int", "kk", I(k)), ("decl", "Signal", "r", B(op, ("paren", opnd), V("kk")))], ["r"], extra_dom=used)


def S7():
    A, C, Ii = V("a"), V("c"), V("i")
    progs = [
        ("proj", A, "signal-C"), ("proj", A, "signal-A"), ("proj", A, ("typeof", "c")),
        ("proj", ("proj", A, "signal-C"), "iron-plate"), ("proj", I(5), "signal-C"),
        ("proj", B("+", A, C), "iron-plate"), ("proj", Ii, "signal-A"), ("proj", Ii, "water"),
        ("proj", I(50), ("typeof", "a")),
        B("+", B("+", ("proj", A, "signal-T"), ("proj", C, "signal-T")), ("proj", Ii, "signal-T")),
        B("+", ("proj", C, "signal-A"), A), B("*", ("proj", C, "signal-A"), A),
        B(">", ("proj", A, "signal-C"), C), ("proj", B(">", A, I(2)), "signal-D"),
        ("lit", "signal-C", B("-", B("*", I(5), I(2)), I(9))), ("lit", ("typeof", "a"), I(42)),
        B("+", ("lit", "signal-A", I(5)), A), B("+", ("lit", "signal-C", I(5)), A),
        B("+", A, ("lit", "signal-C", I(5))), B("*", ("lit", "iron-plate", B("/", I(100), I(2))), A),
        B("+", ("proj", B("*", A, I(2)), "signal-C"), ("proj", B("*", C, I(3)), "signal-C")),
        ("proj", ("cond", B(">", A, I(0)), C), "iron-plate"),
        ("proj", A, "signal-0"),
    ]
    for e in progs:
        yield mk("S7", [("decl", "Signal", "r", e)], ["r"])
    # sugar: 100 | "iron-plate" as a declaration, then used
    yield mk("S7", [("decl", "Signal", "k1", ("proj", I(100), "iron-plate")),
                    ("decl", "Signal", "r", B("+", V("k1"), V("i")))], ["r"])
    yield mk("S7", [("decl", "Signal", "r", B("+", B("*", V("a"), I(2)), ("proj", I(10), ("typeof", "a"))))], ["r"])
    # int variables inside signal expressions
    yield mk("S7", [("decl", "int", "k", I(3)), ("decl", "Signal", "r", B("+", B("*", V("a"), V("k")), V("k")))], ["r"])
    yield mk("S7", [("decl", "int", "k", B("+", I(3), I(4))), ("decl", "Signal", "r", B(">", V("a"), V("k")))], ["r"])
    # number bases
    c = mk("S7", [("decl", "Signal", "r", V("a"))], ["r"])
    c["stmts"] = c["stmts"][:-1] + [("text", "Signal r = a + 0xFF + 0b101 + 0o17;")]
    yield c


def S7_eval(case):
    pass


class C01(core.Check):
    pid = "C01"
    level = "exploration"
    rule = ("bounded-exhaustive: every program of families S1-S7 (all binary operators x ordered leaf pairs, "
            "unary x leaf, all ordered operator pairs printed without parentheses, cond-value forms, depth-2 "
            "class representatives, DAG reuse, projections/typed literals) x the full product of the per-input "
            "value domains, executed on the emitted blueprint; a case is one program; non-trivial = its output "
            "took at least two different values over the grid")
    assumptions = ["circuit model fv/sim.py (Factorio 2.0 semantics)", "reference interpreter fv/lang.py",
                   "deterministic-solver and grammar-cache seams do not change compiler logic"]

    def cases(self, tier):
        out = []
        out += list(S1())
        out += list(S2())
        out += list(S3([("a", "c", "i"), ("a", "b", 3)] + ([("u", 2, "a")] if tier == "thorough" else [])))
        out += list(S4())
        out += list(S5(full=(tier == "thorough")))
        out += list(S6())
        out += list(S7())
        out += list(S8())
        out += list(S9())
        out += list(S10())
        if tier == "thorough":
            # everything again without optimisation
            out += [dict(c, opts={"optimize": False}) for c in list(out) if c["family"] in ("S1", "S2", "S4", "S6", "S7", "S8", "S9", "S10")]
        seen = set()
        uniq = []
        for c in out:
            i = core.case_id(c)
            if i not in seen:
                seen.add(i)
                uniq.append(c)
        return uniq

    def run_case(self, case):
        stmts = gen.thaw(case["stmts"])
        if case["family"] == "S7" and any(s[0] == "text" for s in stmts):
            def evaluate(v):
                return {"r": lang.Sig("signal-A", v["a"] + 0xFF + 0b101 + 0o17)}
            return explore.run_stateless(stmts, case["inputs"], case["domains"], case["outputs"], case["opts"],
                                         evaluate=evaluate)
        return explore.run_stateless(stmts, case["inputs"], case["domains"], case["outputs"], case["opts"])


if __name__ == "__main__":
    core.main_for(C01)
