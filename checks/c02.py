"""C02 — bundle operations act member-wise and never leak foreign signals."""
from __future__ import annotations

from fv import core, explore, gen, lang
from fv.lang import ARITH, CMP, B, I, V

MEM = [0, 1, -2, 5]
SCAL = [0, 1, 2, -1]
BB = ("bundle", [V("x"), V("y"), V("i")])          # members signal-X, signal-Y, iron-plate
DECL_BB = ("decl", "Bundle", "bb", BB)


def D(name, e, kind="Bundle"):
    return ("decl", kind, name, e)


def mk(tag, body, outputs, dom_extra=None):
    body = gen.thaw(body)
    used = set()

    def walk(x):
        if isinstance(x, tuple):
            if len(x) == 2 and x[0] == "var":
                used.add(x[1])
            for y in x:
                walk(y)
    walk(body)
    inputs = [n for n in gen.INPUT_DECL if n in used]
    dom = {}
    for n in inputs:
        dom[n] = list(MEM if n in ("x", "y", "i") else SCAL)
    if dom_extra:
        dom.update(dom_extra)
    return {"tag": tag, "stmts": gen.prog_with_inputs(inputs, body), "inputs": inputs, "domains": dom,
            "outputs": outputs}


def scalar_dom(op):
    if op in ("<<", ">>"):
        return [0, 1, 5]
    if op == "**":
        return [0, 1, 2, 3]
    return SCAL


def programs(tier):
    # literals
    yield mk("lit", [DECL_BB, D("r", V("bb"))], ["r"]) if False else mk("lit", [D("r", BB)], ["r"])
    yield mk("lit-typed", [D("r", ("bundle", [("lit", "signal-X", I(4)), ("lit", "iron-plate", I(-2)), V("y")]))], ["r"])
    yield mk("lit-nested", [DECL_BB, D("r", ("bundle", [V("bb"), V("c")]))], ["r"])
    yield mk("lit-merge2", [D("b1", ("bundle", [V("x"), V("y")])), D("b2", ("bundle", [V("i"), V("c")])), D("r", ("bundle", [V("b1"), V("b2")]))], ["r"])
    yield mk("lit-computed", [D("r", ("bundle", [B("+", V("x"), I(1)), B("*", V("y"), I(2)), V("i")]))], ["r"])
    yield mk("lit-empty", [D("r", ("bundle", []))], ["r"])
    # each-arithmetic with int and signal operands
    for op in ARITH:
        ks = {"<<": (1, 3), ">>": (1, 3), "**": (0, 2, 3)}.get(op, (2, -3, 0, 1))
        for k in ks:
            yield mk(f"each-int {op} {k}", [DECL_BB, D("r", B(op, V("bb"), I(k)))], ["r"])
        sd = scalar_dom(op)
        # scalar unlike any member / like member X (a second source of signal-X) / untyped
        yield mk(f"each-sig {op} unlike", [DECL_BB, D("r", B(op, V("bb"), V("s")))], ["r"], {"s": sd})
        yield mk(f"each-sig {op} member-typed", [DECL_BB, ("decl", "Signal", "sx", ("proj", V("s"), "signal-X")),
                                                D("r", B(op, V("bb"), V("sx")))], ["r"], {"s": sd})
        yield mk(f"each-sig {op} untyped", [DECL_BB, D("r", B(op, V("bb"), V("u")))], ["r"], {"u": sd})
    # the scalar operand is ALSO a member of the bundle (it must arrive on both colours)
    for op in ("*", "+", "-", "/"):
        yield mk(f"each-sig {op} own-member", [D("b3", ("bundle", [V("s"), V("y"), ("lit", "signal-B", I(5))])),
                                              D("r", B(op, V("b3"), V("s")))], ["r"], {"s": [0, 1, 2, -3]})
    yield mk("filter own-member", [D("b3", ("bundle", [V("s"), V("y")])), D("r", ("cond", B(">", V("b3"), V("s")), V("b3")))], ["r"])
    # filters
    for cmp_ in CMP:
        for k in (0, 1, -2):
            yield mk(f"filter {cmp_} {k} :bb", [DECL_BB, D("r", ("cond", B(cmp_, V("bb"), I(k)), V("bb")))], ["r"])
            yield mk(f"filter {cmp_} {k} :1", [DECL_BB, D("r", ("cond", B(cmp_, V("bb"), I(k)), I(1)))], ["r"])
        yield mk(f"filter {cmp_} s :bb", [DECL_BB, D("r", ("cond", B(cmp_, V("bb"), V("s")), V("bb")))], ["r"])
        yield mk(f"filter {cmp_} 1 :7", [DECL_BB, D("r", ("cond", B(cmp_, V("bb"), I(1)), I(7)))], ["r"])
        # gating
        yield mk(f"gate s{cmp_}1", [DECL_BB, D("r", ("cond", B(cmp_, V("s"), I(1)), V("bb")))], ["r"])
        # any / all
        for k in (0, 1, 4):
            yield mk(f"any {cmp_} {k}", [DECL_BB, D("r", B(cmp_, ("any", V("bb")), I(k)), "Signal")], ["r"])
            yield mk(f"all {cmp_} {k}", [DECL_BB, D("r", B(cmp_, ("all", V("bb")), I(k)), "Signal")], ["r"])
    yield mk("gate member-typed", [DECL_BB, ("decl", "Signal", "sx", ("proj", V("s"), "signal-X")),
                                   D("r", ("cond", B(">", V("sx"), I(0)), V("bb")))], ["r"])
    # gating a DERIVED bundle on a member of its own source bundle, with and without further consumers
    sel = B(">", ("sel", V("bb"), "signal-X"), I(2))
    for op2 in ("*", "+"):
        base = [DECL_BB, D("p", B(op2, V("bb"), I(2))), D("r", ("cond", sel, V("p")))]
        yield mk(f"gate-derived {op2}", base, ["r"])
        yield mk(f"gate-derived {op2} +lamp-any-src", base + [("place", "l1", "small-lamp", I(10), I(20), None),
                                                              ("prop", "l1", "enable", B(">", ("any", V("bb")), I(3)))], ["r"])
        yield mk(f"gate-derived {op2} +lamp-any-derived", base + [("place", "l1", "small-lamp", I(10), I(20), None),
                                                                  ("prop", "l1", "enable", B(">", ("any", V("p")), I(3)))], ["r"])
        yield mk(f"gate-derived {op2} +second-result", base + [D("q", B("-", V("bb"), I(1)))], ["r", "q"])
        yield mk(f"gate-derived {op2} +sel-result", base + [D("q", B("+", ("sel", V("p"), "signal-Y"), I(1)), "Signal")], ["r", "q"])
    yield mk("gate-src-on-member", [DECL_BB, D("r", ("cond", sel, V("bb")))], ["r"])
    # a gating whose gated bundle is itself a gating / a filter (the inner decider outputs signal-everything / each)
    yield mk("gate-of-gate", [DECL_BB, D("g1", ("cond", B(">", V("s"), I(0)), V("bb"))), D("r", ("cond", B(">", V("u"), I(1)), V("g1")))],
             ["r"], {"s": [0, 1, -2], "u": [0, 2, 5]})
    yield mk("gate-of-gate same-cond-signal", [DECL_BB, D("g1", ("cond", B(">", V("s"), I(0)), V("bb"))), D("r", ("cond", B("<", V("s"), I(2)), V("g1")))],
             ["r"], {"s": [0, 1, 2, -2]})
    yield mk("gate-of-filter", [DECL_BB, D("g1", ("cond", B(">", V("bb"), I(1)), V("bb"))), D("r", ("cond", B(">", V("s"), I(0)), V("g1")))],
             ["r"], {"s": [0, 1, -2]})
    yield mk("gate-of-gate +inner-exposed", [DECL_BB, D("g1", ("cond", B(">", V("s"), I(0)), V("bb"))), D("r", ("cond", B(">", V("u"), I(1)), V("g1"))),
                                            D("q", B("*", V("g1"), I(3)))], ["r", "q"], {"s": [0, 1], "u": [0, 2]})
    # constant-expression operands and members
    yield mk("each-const-expr", [DECL_BB, D("r", B("*", V("bb"), ("paren", B("+", I(1), I(1)))))], ["r"])
    yield mk("lit-const-expr-member", [D("r", ("bundle", [("lit", "signal-X", B("+", I(1), I(2))), V("y")]))], ["r"])
    # selection
    for t in ("signal-X", "iron-plate"):
        yield mk(f"sel {t}", [DECL_BB, D("r", ("sel", V("bb"), t), "Signal")], ["r"])
        yield mk(f"sel {t} used", [DECL_BB, D("r", B("*", ("sel", V("bb"), t), I(2)), "Signal")], ["r"])
        yield mk(f"sel-after-op {t}", [DECL_BB, D("b2", B("*", V("bb"), I(3))), D("r", B("+", ("sel", V("b2"), t), I(1)), "Signal")], ["r"])
    # two-step chains
    yield mk("chain * then +", [DECL_BB, D("b2", B("*", V("bb"), I(2))), D("r", B("+", V("b2"), I(1)))], ["r"])
    yield mk("chain filter then *", [DECL_BB, D("b2", ("cond", B(">", V("bb"), I(0)), V("bb"))), D("r", B("*", V("b2"), I(3)))], ["r"])
    yield mk("chain * then filter", [DECL_BB, D("b2", B("*", V("bb"), V("s"))), D("r", ("cond", B(">", V("b2"), I(1)), V("b2")))], ["r"])
    yield mk("chain merge then each", [DECL_BB, D("b2", ("bundle", [V("bb"), V("c")])), D("r", B("-", V("b2"), I(1)))], ["r"])
    yield mk("two results", [DECL_BB, D("r1", B("*", V("bb"), I(2))), D("r2", B("+", V("bb"), V("s")))], ["r1", "r2"])
    yield mk("each then any", [DECL_BB, D("b2", B("-", V("bb"), I(1))), D("r", B(">", ("any", V("b2")), I(2)), "Signal")], ["r"])
    if tier == "thorough":
        B4 = ("bundle", [V("x"), V("y"), V("i"), V("c")])
        for op in ("+", "*", "-", "/"):
            yield mk(f"4-member {op}", [D("bb", B4), D("r", B(op, V("bb"), V("s")))], ["r"], {"x": [0, 1, -2], "y": [0, 5], "i": [0, 1, -2], "c": [0, 3]})
        yield mk("chain3", [DECL_BB, D("b2", B("*", V("bb"), I(2))), D("b3", B("+", V("b2"), V("s"))),
                            D("r", ("cond", B("!=", V("b3"), I(1)), V("b3")))], ["r"])


class C02(core.Check):
    pid = "C02"
    level = "exploration"
    timeout = 300
    rule = ("every bundle program of the alphabet (literals, nested/merged/computed/empty bundles, each-arithmetic for "
            "all 11 operators with int and signal scalars typed unlike / like a member / untyped, filters for all 6 "
            "comparisons with bundle and constant output, gating, any/all, selection, two-step chains) x the full "
            "product of member values {0,1,-2,5} and scalar values; ALL signals on the result's anchor network are "
            "compared with the reference map of non-zero members, so a leaked scalar or foreign member is a mismatch; "
            "non-trivial = the result took several values")
    assumptions = ["circuit model fv/sim.py (each/anything/everything semantics)", "reference interpreter fv/lang.py"]

    def cases(self, tier):
        seen, out = set(), []
        for c in programs(tier):
            i = core.case_id(c)
            if i not in seen:
                seen.add(i)
                out.append(c)
        if tier == "thorough":
            out += [dict(c, noopt=True) for c in list(out)]
        return out

    def run_case(self, case):
        stmts = gen.thaw(case["stmts"])
        return explore.run_stateless(stmts, case["inputs"], case["domains"], case["outputs"],
                                     {"optimize": not case.get("noopt", False)})


if __name__ == "__main__":
    core.main_for(C02)
