"""C20 — every named result is exposed and labelled."""
from __future__ import annotations

import re

from fv import core, explore, gen, harness, lang, observe
from fv.lang import B, I, V
from fv.sim import Circuit, Unmodelled

BUN = ("bundle", [V("x"), V("y")])
PRODUCERS = {   # name -> (pre statements, kind, expression)
    "typed-const": ([], "Signal", ("lit", "signal-C", I(7))),
    "untyped-const": ([], "Signal", I(9)),
    "arith": ([], "Signal", B("+", V("a"), I(1))),
    "arith2": ([], "Signal", B("*", B("+", V("a"), V("c")), I(2))),
    "decider": ([], "Signal", B(">", V("a"), I(2))),
    "cond": ([], "Signal", ("cond", B(">", V("a"), I(2)), V("c"))),
    "proj": ([], "Signal", ("proj", V("a"), "signal-D")),
    "mem-read": ([("mem", "m", "signal-M"), ("write", "m", ("proj", V("a"), "signal-M"), B(">", V("c"), I(0)))], "Signal", ("read", "m")),
    "latch-read": ([("mem", "l", "signal-L"), ("latch", "l", I(1), B(">", V("a"), I(0)), B(">", V("c"), I(0)), "sr")], "Signal", ("read", "l")),
    "wire-merge": ([("decl", "Signal", "k1", ("lit", "signal-A", I(4)))], "Signal", B("+", V("a"), V("k1"))),
    "func-return": ([("func", "f", [("Signal", "s")], [], B("*", V("s"), I(3)))], "Signal", ("call", "f", [V("a")])),
    "bundle-const": ([], "Bundle", ("bundle", [("lit", "signal-X", I(3)), ("lit", "signal-Y", I(4))])),
    "bundle-inputs": ([], "Bundle", BUN),
    "bundle-each": ([("decl", "Bundle", "bb", BUN)], "Bundle", B("*", V("bb"), I(2))),
    "bundle-filter": ([("decl", "Bundle", "bb", BUN)], "Bundle", ("cond", B(">", V("bb"), I(1)), V("bb"))),
}
CONSUMPTION = ["unconsumed", "alias-and-entity", "entity-then-reader", "input-aliased", "input-through-func-local", "alias-param-clash", "alias-local-clash", "repeated-anonymously", "consumed-once", "alias-first-consumed", "alias-both-unconsumed", "consumed-in-func",
               "consumed-in-loop", "twice-same-expr", "two-outputs"]
VAL = {"a": 5, "c": 3, "x": 2, "y": 6}


def mk(pname, cons, optimize):
    pre, kind, expr = PRODUCERS[pname]
    body = list(pre) + [("decl", kind, "r", expr)]
    outs = {"r": expr}
    scalar = kind == "Signal"
    if cons == "unconsumed":
        pass
    elif cons in ("alias-param-clash", "alias-local-clash"):
        # an unconsumed alias `r2` of a value that has another consumer, while a called function has a parameter
        # (or a local) that is spelled `r2` as well
        if not scalar:
            return None
        if cons == "alias-param-clash":
            body.append(("func", "g", [("Signal", "r2")], [], B("*", V("r2"), I(2))))
        else:
            body.append(("func", "g", [("Signal", "s")], [("decl", "Signal", "r2", B("+", V("s"), I(1)))], B("*", V("r2"), I(2))))
        body.append(("decl", "Signal", "r2", V("r")))
        e2 = ("call", "g", [V("r")])
        body.append(("decl", "Signal", "q", e2))
        outs = {"r2": V("r"), "q": e2}
    elif cons in ("alias-and-entity", "entity-then-reader"):
        # the value enables an entity (a simple comparison is inlined into the entity) AND is read as a signal:
        # by an unconsumed alias, or by a statement that comes after the entity
        if not scalar:
            return None
        lamp = [("place", "lamp", "small-lamp", I(10), I(20), None), ("prop", "lamp", "enable", V("r"))]
        if cons == "alias-and-entity":
            body += [("decl", "Signal", "r2", V("r"))] + lamp
            outs = {"r2": V("r")}
        else:
            e2 = B("*", V("r"), I(7))
            body += lamp + [("decl", "Signal", "q", e2)]
            outs = {"q": e2}
    elif cons in ("input-aliased", "input-through-func-local"):
        # the typed input `a` is bound to a second name: by an unconsumed top-level alias, or by a local of a called
        # function; the input must stay findable under ITS name
        if "a" not in gen.vars_in(expr, set()) or kind != "Signal":
            return None
        if cons == "input-aliased":
            body.append(("decl", "Signal", "a2", V("a")))
            outs = {"r": expr, "a2": V("a")}
        else:
            body.append(("func", "g", [("Signal", "s")], [("decl", "Signal", "t", V("s"))], B("*", V("t"), I(7))))
            e2 = ("call", "g", [V("a")])
            body.append(("decl", "Signal", "q", e2))
            outs = {"r": expr, "q": e2}
    elif cons == "repeated-anonymously":
        # the same expression again, anonymously, inside a later statement: `r` itself is never referenced
        if pname in ("typed-const", "untyped-const", "bundle-const", "mem-read", "latch-read", "func-return"):
            return None
        e2 = B("*", ("paren", expr), I(2))
        body.append(("decl", kind, "q", e2))
        outs = {"r": expr, "q": e2}
    elif cons == "consumed-once":
        e2 = B("+", V("r"), I(10)) if scalar else B("+", V("r"), I(10))
        body.append(("decl", kind, "q", e2))
        outs = {"q": e2}
    elif cons == "alias-first-consumed":
        body.append(("decl", kind, "r2", V("r")))
        e3 = B("*", V("r"), I(2))
        body.append(("decl", kind, "q", e3))
        outs = {"r2": V("r"), "q": e3}
    elif cons == "alias-both-unconsumed":
        body.append(("decl", kind, "r2", V("r")))
        outs = {"r2": V("r")}      # `r` is consumed by the alias statement; only `r2` must be exposed
    elif cons == "consumed-in-func":
        if not scalar:
            return None
        body.append(("func", "g", [("Signal", "s")], [], B("-", V("s"), I(1))))
        e2 = ("call", "g", [V("r")])
        body.append(("decl", "Signal", "q", e2))
        outs = {"q": e2}
    elif cons == "consumed-in-loop":
        if not scalar:
            return None
        body.append(("for", "j", ("range", 0, 2, None), [("place", "e", "small-lamp", B("+", V("j"), I(10)), I(20), None),
                                                           ("prop", "e", "enable", B(">", V("r"), V("j")))]))
        outs = {}
    elif cons == "twice-same-expr":
        body.append(("decl", kind, "r2", expr))
        outs = {"r": expr, "r2": expr}
    elif cons == "two-outputs":
        e2 = B("-", V("r"), I(1))
        body.append(("decl", kind, "q1", e2))
        body.append(("decl", kind, "q2", B("*", V("r"), I(3))))
        outs = {"q1": e2, "q2": B("*", V("r"), I(3))}
    body = gen.thaw(body)
    used = set()

    def walk(x):
        if isinstance(x, tuple):
            if len(x) == 2 and x[0] == "var":
                used.add(x[1])
            for y in x:
                walk(y)
    walk(body)
    inputs = [n for n in ("a", "c", "x", "y") if n in used]
    return {"producer": pname, "consumption": cons, "optimize": optimize, "stmts": gen.prog_with_inputs(inputs, body),
            "inputs": inputs, "outputs": sorted(outs)}


class C20(core.Check):
    pid = "C20"
    level = "exploration"
    rule = ("every producer kind (typed/untyped constant, arithmetic, decider, ':' decider, projection, memory read, "
            "latch read, wire merge, function return, bundle constant / inputs / each / filter) x every consumption "
            "pattern (unconsumed, enabling an entity while also read through an alias / by a later statement, a typed input aliased under a second top-level name / bound to a function local, consumed once, alias with one/both names unconsumed, consumed only in a function / a "
            "loop, same expression under two names, fan-out to two outputs) x optimise on/off; for every unconsumed "
            "top-level name: a labelled producer (name and source line), exactly one anchor on the producer's output "
            "network (or the labelled constant combinator itself) and the reference value on the result's own signal; "
            "every typed input declaration is a labelled constant combinator holding its value; "
            "non-trivial = the program has at least one exposed computed result")
    assumptions = ["which names are outputs is computed from our own AST", "circuit model fv/sim.py"]

    def cases(self, tier):
        out = []
        for p in PRODUCERS:
            for c in CONSUMPTION:
                for opt in (True, False):
                    k = mk(p, c, opt)
                    if k:
                        out.append(k)
        return out

    def run_case(self, case):
        stmts = gen.thaw(case["stmts"])
        inputs = case["inputs"]
        val = {i: VAL[i] for i in inputs}
        prog, _ = explore.with_placeholders(stmts, inputs, [val[i] for i in inputs])
        src = lang.show_prog(prog)
        try:
            bp = harness.compile_src(src, optimize=case["optimize"])
        except harness.Rejected as ex:
            return {"status": "rejected", "detail": str(ex)[:300]}
        circ = Circuit(bp)
        problems = []
        lines = src.splitlines()

        def line_of(name):
            for i, ln in enumerate(lines, 1):
                if re.match(rf"\s*(Signal|Bundle) {name} =", ln):
                    return i
            return None
        # inputs: labelled constant combinators holding their value
        for i in inputs:
            es = [e for e in observe.find_labelled(bp, i, "input") if e["name"] == "constant-combinator"]
            if len(es) != 1:
                problems.append((i, f"input has {len(es)} labelled constant combinators"))
                continue
            fs = observe.const_filters(es[0])
            if len(fs) != 1 or fs[0].get("count") != val[i] or f"(value={val[i]} " not in observe.what(es[0]):
                problems.append((i, f"input combinator holds {[(f['name'], f.get('count')) for f in fs]} / label {observe.what(es[0])!r}"))
        try:
            st, k = circ.settle(circ.initial_state(), 60)
        except Unmodelled as ex:
            return {"status": "inconclusive", "detail": str(ex)}
        env = lang.Env(val)
        has_mem = any(s[0] in ("mem",) for s in prog)
        if has_mem:
            # a=5,c=3: gated cell follows a; latch: set and reset both active, set first -> on
            env.mem_read = lambda m: lang.Sig("signal-M", val["a"]) if m == "m" else lang.Sig("signal-L", 1)
        lang.run(prog, env)
        for o in case["outputs"]:
            view = observe.output_view(circ, o)
            want = env.vars[o]
            ln = line_of(o)
            if view[0] == "anchor":
                anchors = observe.find_labelled(bp, o, "anchor")
                anum = anchors[0]["entity_number"]
                # producer: a non-anchor entity labelled with the name (and its line) on the anchor's network
                prods = [e for e in bp["entities"] if e["entity_number"] != anum and
                         (observe.what(e).startswith(f"{o} (") and "(output anchor)" not in observe.what(e))]
                aroots = {circ.root(anum, c) for c in (1, 2)} - {None}
                on_net = []
                for e in prods:
                    conns = (3, 4) if e["name"] in ("arithmetic-combinator", "decider-combinator") else (1, 2)
                    if {circ.root(e["entity_number"], c) for c in conns} & aroots:
                        on_net.append(e)
                if not on_net:
                    # an alias / merge may be produced by an entity labelled with another name: accept any
                    # labelled producer on the network, but it must exist
                    any_src = [e for e in bp["entities"] if e["entity_number"] != anum and e.get("player_description")
                               and "(output anchor)" not in observe.what(e)
                               and ({circ.root(e["entity_number"], c) for c in (1, 2, 3, 4)} & aroots)]
                    if not any_src:
                        problems.append((o, "anchor is wired to no labelled producer"))
                else:
                    m = observe.DESC.match(observe.desc(on_net[0]))
                    if ln is not None and (not m or m.group("line") != str(ln)):
                        problems.append((o, f"producer label {observe.desc(on_net[0])!r} lacks line {ln}"))
            elif view[0] == "const":
                if observe.find_labelled(bp, o, "anchor"):
                    problems.append((o, "constant producer has an extra anchor"))
            else:
                problems.append((o, f"not exposed ({view[0]})"))
                continue
            if k is None:
                problems.append((o, "circuit does not settle"))
                continue
            sigs = observe.read_output(circ, st, view)
            if isinstance(want, lang.Bun):
                got = observe.by_name(sigs)
                if got != dict(want):
                    problems.append((o, f"value {got} != {dict(want)}"))
            else:
                ok, got, note = explore.expect_scalar(circ, sigs, view, want)
                if not ok:
                    problems.append((o, f"value {note or got} != {(want.type, want.value)}"))
        res = {"evaluations": 1, "compiles": 1, "nontrivial": bool(case["outputs"]),
               "sample": {"src": src[:500], "outputs": case["outputs"]}}
        if problems:
            res["status"] = "fail"
            res["digest"] = core.sha(problems)
            res["detail"] = {"src": src, "optimize": case["optimize"], "problems": problems}
        else:
            res["status"] = "pass"
        return res


if __name__ == "__main__":
    core.main_for(C20)
