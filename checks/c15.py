"""C15 — calling a function equals substituting its body (differential vs our own inlining)."""
from __future__ import annotations

from fv import core, explore, gen, lang
from fv.lang import B, I, V

# function menu: name -> ("func", name, params, body, ret)
F = {
    "pure": ("func", "f", [("Signal", "s"), ("int", "n")], [], B("+", B("*", V("s"), V("n")), I(1))),
    "locals": ("func", "f", [("Signal", "s"), ("int", "n")],
               [("decl", "Signal", "t1", B("*", V("s"), I(2))), ("decl", "Signal", "t2", B("+", V("t1"), V("n")))],
               B("-", V("t2"), V("s"))),
    # a local named like an outer variable (the caller declares `x0`)
    "shadow": ("func", "f", [("Signal", "s"), ("int", "n")],
               [("decl", "Signal", "x0", B("+", V("s"), V("n")))], B("*", V("x0"), I(3))),
    "cond": ("func", "f", [("Signal", "s"), ("int", "n")], [],
             B("+", ("cond", B(">", V("s"), V("n")), V("s")), ("cond", B("<=", V("s"), V("n")), V("n")))),
    "typeof": ("func", "f", [("Signal", "s"), ("int", "n")],
               [("decl", "Signal", "k", ("proj", V("n"), ("typeof", "s")))], B("+", V("s"), V("k"))),
    "place": ("func", "f", [("Signal", "s"), ("int", "n")],
              [("place", "lamp", "small-lamp", B("+", V("n"), I(10)), I(20), None),
               ("prop", "lamp", "enable", B(">", V("s"), V("n")))], B("+", V("s"), I(0))),
    "nested": ("func", "f", [("Signal", "s"), ("int", "n")], [], B("+", ("call", "g", [V("s")]), V("n"))),
    # round 5: three levels of calls, a parameter read three times, compile-time arithmetic on the int parameter,
    # a local int, a dead local, the same helper called twice inside one body
    "deep": ("func", "f", [("Signal", "s"), ("int", "n")], [], B("-", ("call", "g2", [V("s"), V("n")]), ("call", "g", [V("s")]))),
    "reuse": ("func", "f", [("Signal", "s"), ("int", "n")], [], B("+", B("*", V("s"), V("s")), B("-", V("s"), V("n")))),
    "int-arith": ("func", "f", [("Signal", "s"), ("int", "n")], [], B("+", V("s"), ("paren", B("-", B("*", V("n"), I(2)), I(1))))),
    "local-int": ("func", "f", [("Signal", "s"), ("int", "n")], [("decl", "int", "m", B("+", V("n"), I(1)))], B("*", V("s"), V("m"))),
    "dead-local": ("func", "f", [("Signal", "s"), ("int", "n")], [("decl", "Signal", "unused", B("*", V("s"), I(9)))], B("+", V("s"), V("n"))),
    "helper-twice": ("func", "f", [("Signal", "s"), ("int", "n")], [], B("+", ("call", "g", [V("s")]), ("call", "g", [B("+", V("s"), V("n"))]))),
}
G2 = ("func", "g2", [("Signal", "p"), ("int", "k")], [("decl", "Signal", "w2", ("call", "g", [B("+", V("p"), V("k"))]))], B("*", V("w2"), I(2)))
NEEDS_G = ("nested", "deep", "helper-twice")
# parameter names that are also names of the caller: arguments must be evaluated in the CALLER's scope
SWAP = [
    ("func", "sub2", [("Signal", "a"), ("Signal", "c")], [], B("-", B("*", V("a"), I(3)), V("c"))),
    ("func", "inner", [("Signal", "x0"), ("Signal", "a")], [], B("-", V("x0"), B("*", V("a"), I(2)))),
    ("func", "outer", [("Signal", "a"), ("Signal", "x0")], [], B("+", ("call", "inner", [V("x0"), V("a")]), I(1))),
]
MIXED = {
    "cmp": B(">", V("x"), V("y")),
    "sel-y": ("cond", B(">", V("x"), I(1)), V("y")),
    "sel-x": ("cond", B(">", V("y"), I(1)), V("x")),
    "cmpsel": ("cond", B(">=", V("x"), V("y")), V("y")),
    "arith": B("+", B("*", V("x"), I(2)), V("y")),
    "and": B("&&", B(">=", V("x"), V("y")), B(">", V("y"), I(0))),
    "cmp-arith": B("+", B("*", ("paren", B(">", V("x"), V("y"))), I(2)), V("y")),
}
G = ("func", "g", [("Signal", "q")], [("decl", "Signal", "w1", B("*", V("q"), V("q")))], B("-", V("w1"), I(1)))
ARGS = {
    "typed,int": (V("a"), I(3)), "typed,intvar": (V("a"), V("kk")), "untyped,int": (V("u"), I(2)),
    "expr,int": (B("+", V("a"), V("c")), I(4)), "int,int": (I(7), I(2)), "typed,signal": (V("a"), V("c")),
    "item,int": (V("i"), I(-3)),
}


def mk(fname, argname, ctx):
    f = F[fname]
    sargs = ARGS[argname]
    pre = [("decl", "int", "kk", I(5)), ("decl", "Signal", "x0", B("+", V("a"), I(100)))]
    body = list(pre) + ([G] if fname in NEEDS_G else []) + ([G2] if fname == "deep" else []) + [f]
    outs = ["x0"]
    if ctx == "once":
        body.append(("decl", "Signal", "r1", ("call", "f", list(sargs))))
        outs.append("r1")
    elif ctx == "twice":
        body.append(("decl", "Signal", "r1", ("call", "f", list(sargs))))
        a2 = (B("+", sargs[0], I(1)) if sargs[0][0] != "int" else I(9), I(6))
        body.append(("decl", "Signal", "r2", ("call", "f", list(a2))))
        outs += ["r1", "r2"]
    elif ctx == "in-expr":
        body.append(("decl", "Signal", "r1", B("*", B("+", ("call", "f", list(sargs)), I(2)), I(3))))
        outs.append("r1")
    elif ctx == "loop":
        # results inside a loop are local: observe through entities
        if fname == "place":
            return None
        body.append(("for", "j", ("range", 0, 2, None),
                     [("place", "e", "small-lamp", B("+", V("j"), I(30)), I(24), None),
                      ("prop", "e", "enable", B(">", ("call", "f", [sargs[0], V("j")]), I(4)))]))
    if argname == "typed,signal" and fname in ("place", "typeof", "local-int"):
        return None     # a Signal bound to an int parameter cannot be a coordinate / projection value
    if fname == "typeof" and sargs[0][0] != "var":
        return None     # `.type` of a parameter bound to an expression has no inlined form
    if fname == "typeof" and ctx == "twice":
        return None
    used = set()

    def walk(x):
        if isinstance(x, tuple):
            if x and x[0] == "var":
                used.add(x[1])
            for y in x:
                walk(y)
    walk(gen.thaw(body))
    inputs = [n for n in ("a", "c", "i", "u") if n in used or n == "a"]
    return {"f": fname, "args": argname, "ctx": ctx, "stmts": gen.prog_with_inputs(inputs, body),
            "inputs": inputs, "outputs": outs}


ENTITY_PROGS = {
    # Entity parameter with property write; entity-returning function
    "entity-param": [("func", "setup", [("Entity", "l"), ("Signal", "s")], [("prop", "l", "enable", B(">", V("s"), I(2)))], None),
                     ("place", "l1", "small-lamp", I(10), I(20), None), ("place", "l2", "small-lamp", I(12), I(20), None),
                     ("expr", ("call", "setup", [V("l1"), V("a")])), ("expr", ("call", "setup", [V("l2"), B("*", V("a"), I(2))]))],
    "entity-return": [("func", "mk", [("int", "x"), ("Signal", "s")],
                       [("place", "lamp", "small-lamp", V("x"), I(22), None), ("prop", "lamp", "enable", B(">", V("s"), V("x")))], V("lamp")),
                      ("decl", "Entity", "m1", ("call", "mk", [I(10), V("a")])),
                      ("decl", "Entity", "m2", ("call", "mk", [I(13), B("+", V("a"), I(1))]))],
}


class C15(core.Check):
    pid = "C15"
    level = "exploration"
    timeout = 300
    rule = ("function bodies (pure, locals, local shadowing an outer name, conditional, .type of a parameter, local "
            "place, nested call, Entity parameter, entity-returning) x argument kinds (typed/untyped/item signal, "
            "expression, int literal, int variable, int->Signal and Signal->int coercion, an int literal to one Signal parameter next to a run-time signal for comparison / ':' / && bodies) x call contexts (once, twice, "
            "inside an expression, inside a loop); each program is compared with the twin in which our own inliner "
            "replaced every call: named outputs, user-entity multiset and entity conditions for every input valuation; "
            "memory-carrying bodies are compared by lock-step BFS (C15m cases); non-trivial = outputs vary with inputs")
    assumptions = ["circuit model fv/sim.py", "inlined twin produced by fv/lang.inline_calls"]

    def cases(self, tier):
        out = []
        for fname in F:
            for argname in ARGS:
                for ctx in ("once", "twice", "in-expr", "loop"):
                    c = mk(fname, argname, ctx)
                    if c:
                        out.append(c)
        pre = [("decl", "Signal", "x0", B("+", V("a"), I(100)))]
        for tag, body in (
            ("swap-args", [SWAP[0], ("decl", "Signal", "r1", ("call", "sub2", [V("c"), V("a")]))]),
            ("swap-expr-args", [SWAP[0], ("decl", "Signal", "r1", ("call", "sub2", [B("+", V("c"), I(1)), B("*", V("a"), V("c"))]))]),
            ("swap-nested", [SWAP[1], SWAP[2], ("decl", "Signal", "r1", ("call", "outer", [V("c"), V("a")]))]),
            ("swap-nested-self", [SWAP[1], SWAP[2], ("decl", "Signal", "r1", ("call", "outer", [V("x0"), V("c")]))]),
        ):
            out.append({"f": tag, "args": "caller-names", "ctx": "once", "stmts": gen.prog_with_inputs(["a", "c"], pre + body),
                        "inputs": ["a", "c"], "outputs": ["r1", "x0"] if "self" not in tag else ["r1"]})
        # a Signal parameter named like a compile-time int of the caller (int variable / loop iterator)
        thr = ("func", "thresh", [("Signal", "j"), ("int", "base")], [], B("*", B("+", V("j"), V("base")), I(2)))
        thk = ("func", "thk", [("Signal", "kk"), ("int", "n")], [], B("-", B("*", V("kk"), V("n")), V("kk")))
        out.append({"f": "int-clash-loop", "args": "caller-names", "ctx": "loop",
                    "stmts": gen.prog_with_inputs(["a", "c"], [thr, ("for", "j", ("range", 0, 3, None),
                              [("place", "e", "small-lamp", B("+", V("j"), I(30)), I(24), None),
                               ("prop", "e", "enable", B(">", ("call", "thresh", [V("a"), V("j")]), I(6)))])]),
                    "inputs": ["a", "c"], "outputs": []})
        out.append({"f": "int-clash-var", "args": "caller-names", "ctx": "once",
                    "stmts": gen.prog_with_inputs(["a", "c"], [("decl", "int", "kk", I(5)), thk,
                              ("decl", "Signal", "r1", ("call", "thk", [V("a"), V("kk")])),
                              ("decl", "Signal", "r2", ("call", "thk", [B("+", V("c"), I(1)), I(3)]))]),
                    "inputs": ["a", "c"], "outputs": ["r1", "r2"]})
        # two differently named parameters bound to the SAME caller value (wire-mergeable: input / constant)
        tot = ("func", "total", [("Signal", "p"), ("Signal", "q")], [], B("+", V("p"), V("q")))
        twice = ("func", "twice", [("Signal", "v")], [], ("call", "total", [V("v"), V("v")]))
        for tag, body in (
            ("alias-args", [tot, ("decl", "Signal", "r1", B("*", ("call", "total", [V("a"), V("a")]), I(3)))]),
            ("alias-args-nested", [tot, twice, ("decl", "Signal", "r1", ("proj", ("call", "twice", [V("a")]), "signal-O"))]),
            ("alias-args-const", [tot, ("decl", "Signal", "k5", ("lit", "signal-A", I(5))), ("decl", "Signal", "r1", B("+", ("call", "total", [V("k5"), V("k5")]), V("a")))]),
            ("alias-args-distinct", [tot, ("decl", "Signal", "r1", B("*", ("call", "total", [V("a"), V("c")]), I(3)))]),
        ):
            out.append({"f": tag, "args": "same-value-twice", "ctx": "once", "stmts": gen.prog_with_inputs(["a", "c"], pre + body),
                        "inputs": ["a", "c"], "outputs": ["r1"]})
        # an integer literal bound to ONE Signal parameter while the other is a run-time signal: the constant reaches
        # comparison operands and ':' values inside the body
        for fn, ret in MIXED.items():
            for an, args in (("lit,sig", [I(2), V("a")]), ("sig,lit", [V("a"), I(2)]), ("lit,expr", [I(-1), B("*", V("a"), V("c"))])):
                f = ("func", "g", [("Signal", "x"), ("Signal", "y")], [], ret)
                used = ["a", "c"] if an == "lit,expr" else ["a"]
                out.append({"f": "mixed-" + fn, "args": an, "ctx": "once",
                            "stmts": gen.prog_with_inputs(used, [f, ("decl", "Signal", "r1", ("call", "g", args))]),
                            "inputs": used, "outputs": ["r1"]})
        for name, body in ENTITY_PROGS.items():
            out.append({"f": name, "args": "-", "ctx": "entity", "stmts": gen.prog_with_inputs(["a"], body),
                        "inputs": ["a"], "outputs": []})
        out += memory_cases()
        return out

    def run_case(self, case):
        stmts = gen.thaw(case["stmts"])
        twin = lang.inline_calls(stmts)
        if case.get("kind") == "memory":
            return run_memory_case(case, stmts, twin)
        dom = {i: [0, 1, 3, -2, 6] for i in case["inputs"]}
        A = {"stmts": stmts, "inputs": case["inputs"], "opts": {"optimize": True}}
        Bt = {"stmts": twin, "inputs": case["inputs"], "opts": {"optimize": True}}
        return explore.run_differential(A, Bt, dom, [(o, o) for o in case["outputs"]], mode="value")


# ---- bodies with a local memory: two call sites must be two independent cells --------------
def memory_cases():
    acc = ("func", "acc", [("Signal", "s"), ("Signal", "en")],
           [("mem", "cell", "signal-M"), ("write", "cell", ("proj", V("s"), "signal-M"), B(">", V("en"), I(0)))],
           ("read", "cell"))
    out = []
    for tag, body in (
        ("one-call", [acc, ("decl", "Signal", "r1", B("+", ("call", "acc", [V("d"), V("t")]), I(1)))]),
        ("two-calls", [acc, ("decl", "Signal", "r1", B("+", ("call", "acc", [V("d"), V("t")]), I(1))),
                       ("decl", "Signal", "r2", B("+", ("call", "acc", [V("c"), V("s")]), I(2)))]),
    ):
        used = ["d", "t"] + (["c", "s"] if tag == "two-calls" else [])
        inputs = [n for n in gen.INPUT_DECL if n in used]
        out.append({"kind": "memory", "f": "acc", "args": tag, "ctx": tag, "stmts": gen.prog_with_inputs(inputs, body),
                    "inputs": inputs, "outputs": ["r1"] + (["r2"] if tag == "two-calls" else [])})
    return out


def run_memory_case(case, stmts, twin):
    """Reference: every call site is its own gated cell (that is what the inlined twin says);
    both the program and the twin are explored by BFS against that reference."""
    inputs = case["inputs"]
    dom = {"d": [0, 1, 5], "c": [0, 2, 7], "t": [0, 1], "s": [0, 1]}
    doms = {i: dom[i] for i in inputs}
    two = "r2" in case["outputs"]

    def ref_step(q, val, event):
        q = q or (0, 0)
        q1 = val["d"] if val["t"] > 0 else q[0]
        q2 = (val["c"] if val["s"] > 0 else q[1]) if two else 0
        return [(q1, q2)]

    def ref_expect(q, val):
        exp = {"r1": lang.Sig("signal-M", q[0] + 1)}
        if two:
            exp["r2"] = lang.Sig("signal-M", q[1] + 2)
        return exp
    results = []
    for which, prog in (("calls", stmts), ("inlined-twin", twin)):
        r = explore.run_bfs(prog, inputs, doms, {"optimize": True}, case["outputs"], None, ref_step, ref_expect)
        r["which"] = which
        results.append(r)
    a, b = results
    res = {k: a.get(k, 0) + b.get(k, 0) for k in ("evaluations", "states", "transitions", "ticks", "traces")}
    res["nontrivial"] = True
    res["sample"] = {"src": lang.show_prog(stmts)[:400]}
    sts = (a["status"], b["status"])
    if a["status"] == "fail":
        res.update(status="fail", digest=core.sha([a.get("digest"), b.get("status")]),
                   detail={"calls": a.get("detail"), "twin_status": b["status"]})
    elif b["status"] == "fail":
        res.update(status="inconclusive", detail={"twin_fails": b.get("detail")})
    else:
        res["status"] = "pass" if sts == ("pass", "pass") else a["status"]
    return res


if __name__ == "__main__":
    core.main_for(C15)
