"""C06 — entities are driven by exactly the condition the program assigns."""
from __future__ import annotations

import itertools

from fv import core, explore, gen, harness, lang, observe
from fv.lang import B, I, V
from fv.sim import Circuit, Unmodelled

PROTOS = ["small-lamp", "inserter", "transport-belt", "pump", "power-switch", "train-stop", "assembling-machine-1"]
BUN = ("bundle", [V("x"), V("y"), V("i")])
ENV_VALS = [{}, {"iron-plate": 5}, {"iron-plate": 150}, {"iron-plate": 5, "copper-plate": 200}]
TANK_VALS = [{}, {"water": 5}, {"water": 150}]


def enables():
    X, Y = V("x"), V("y")
    return {
        "x>3": ([], B(">", X, I(3))),
        "x<=3": ([], B("<=", X, I(3))),
        "x!=0": ([], B("!=", X, I(0))),
        "x": ([], X),
        "x+y>3": ([], B(">", B("+", X, Y), I(3))),
        "x>3&&y<3": ([], B("&&", B(">", X, I(3)), B("<", Y, I(3)))),
        "x>y": ([], B(">", X, Y)),
        "named-cmp": ([("decl", "Signal", "en", B(">", X, I(3)))], V("en")),
        # conditions the compiler can evaluate itself (an anonymous folded constant drives the entity)
        "const:n>2": ([("decl", "int", "n", I(4))], B(">", V("n"), I(2))),
        "const:n<2": ([("decl", "int", "n", I(4))], B("<", V("n"), I(2))),
        "const:expr": ([("decl", "int", "n", I(5))], B("==", B("%", V("n"), I(2)), I(1))),
        "const:7": ([], I(7)),
        "cond:signal": ([], ("cond", B(">", X, I(3)), Y)),
        "cond:-2": ([], ("cond", B(">", X, I(3)), I(-2))),
        "cond:5": ([], ("cond", B("<=", X, I(3)), I(5))),
        "cond:0": ([], ("cond", B(">", X, I(3)), I(0))),
        "any<3": ([("decl", "Bundle", "bb", BUN)], B("<", ("any", V("bb")), I(3))),
        "all>0": ([("decl", "Bundle", "bb", BUN)], B(">", ("all", V("bb")), I(0))),
        "any==5": ([("decl", "Bundle", "bb", BUN)], B("==", ("any", V("bb")), I(5))),
        "all(chest)>100": ([("place", "ch", "steel-chest", I(30), I(20), None)], B(">", ("all", ("output", "ch")), I(100))),
        "any(chest)>100": ([("place", "ch", "steel-chest", I(30), I(20), None)], B(">", ("any", ("output", "ch")), I(100))),
        "chest[iron]>10": ([("place", "ch", "steel-chest", I(30), I(20), None)], B(">", ("sel", ("output", "ch"), "iron-plate"), I(10))),
        "chest-bundle-var": ([("place", "ch", "steel-chest", I(30), I(20), None), ("decl", "Bundle", "cc", ("output", "ch"))],
                             B(">", ("all", V("cc")), I(100))),
        "tank[water]>10": ([("place", "tk", "storage-tank", I(30), I(20), None)], B(">", ("sel", ("output", "tk"), "water"), I(10))),
        # round 5: every comparator against a second signal, integer on the left, ||, !, sums of comparisons, function result,
        # projection, and a comparison of a comparison
        **{f"x{op}y": ([], B(op, X, Y)) for op in ("<", "<=", "==", "!=", ">=")},
        "3<x": ([], B("<", I(3), X)),
        "0!=x": ([], B("!=", I(0), X)),
        "x>3||y<3": ([], B("||", B(">", X, I(3)), B("<", Y, I(3)))),
        "!(x>3)": ([], ("un", "!", B(">", X, I(3)))),
        "!x": ([], ("un", "!", X)),
        "-x": ([], ("un", "-", X)),
        "cmp+cmp>=2": ([], B(">=", B("+", B(">", X, I(3)), B(">", Y, I(3))), I(2))),
        "cmp==cmp": ([], B("==", B(">", X, I(3)), B(">", Y, I(3)))),
        "x%2==1": ([], B("==", B("%", X, I(2)), I(1))),
        "proj": ([], B(">", ("proj", X, "signal-Q"), I(3))),
        "x-y": ([], B("-", X, Y)),
        "fn": ([("func", "over", [("Signal", "s"), ("int", "lim")], [], B(">", V("s"), V("lim")))], ("call", "over", [X, I(3)])),
        "x>3&&y<3&&x<5": ([], B("&&", B("&&", B(">", X, I(3)), B("<", Y, I(3))), B("<", X, I(5)))),
        "chest*2 any": ([("place", "ch", "steel-chest", I(30), I(20), None), ("decl", "Bundle", "c2", B("*", ("output", "ch"), I(2)))],
                        B(">", ("any", V("c2")), I(250))),
    }


def mk(tag, body, ents, inputs_dom, env_ents):
    body = gen.thaw(body)
    used = set()

    def walk(x):
        if isinstance(x, tuple):
            if len(x) == 2 and x[0] == "var":
                used.add(x[1])
            for y in x:
                walk(y)
    walk(body)
    inputs = [n for n in gen.INPUT_DECL if n in used and n in ("x", "y", "i", "a", "c")]
    return {"tag": tag, "stmts": gen.prog_with_inputs(inputs, body), "inputs": inputs,
            "domains": {n: inputs_dom.get(n, [0, 3, 4, -1, 5]) for n in inputs}, "entities": ents, "env": env_ents}


def programs(tier):
    en = enables()
    for proto in PROTOS:
        for tag, (pre, expr) in en.items():
            if tier == "quick" and proto not in ("small-lamp", "inserter", "pump") and tag not in ("x>3", "x", "x+y>3", "all(chest)>100", "cond:signal", "const:n>2"):
                continue
            body = list(pre) + [("place", "e1", proto, I(10), I(20), None), ("prop", "e1", "enable", expr)]
            env = {"ch": ("steel-chest", 30, 20)} if "chest" in tag or "ch" in str(pre) else ({"tk": ("storage-tank", 30, 20)} if "tank" in tag else {})
            yield mk(f"{proto}/{tag}", body, {"e1": (proto, 10, 20, expr)}, {}, env)
    X, Y = V("x"), V("y")
    # one comparison shared by two entities (+ a third, arithmetic, consumer)
    sh = B(">", X, I(3))
    yield mk("shared-cmp-2", [("decl", "Signal", "en", sh), ("place", "e1", "small-lamp", I(10), I(20), None), ("prop", "e1", "enable", V("en")),
                              ("place", "e2", "inserter", I(12), I(20), None), ("prop", "e2", "enable", V("en"))],
             {"e1": ("small-lamp", 10, 20, sh), "e2": ("inserter", 12, 20, sh)}, {}, {})
    yield mk("shared-cmp-mixed", [("decl", "Signal", "en", sh), ("place", "e1", "small-lamp", I(10), I(20), None), ("prop", "e1", "enable", V("en")),
                                  ("decl", "Signal", "other", B("+", V("en"), Y))],
             {"e1": ("small-lamp", 10, 20, sh)}, {}, {})
    yield mk("same-inline-twice", [("place", "e1", "small-lamp", I(10), I(20), None), ("prop", "e1", "enable", B(">", X, I(3))),
                                   ("place", "e2", "small-lamp", I(12), I(20), None), ("prop", "e2", "enable", B(">", X, I(4)))],
             {"e1": ("small-lamp", 10, 20, B(">", X, I(3))), "e2": ("small-lamp", 12, 20, B(">", X, I(4)))}, {}, {})
    # textually identical conditions on several entities (candidates for common-subexpression elimination)
    for tag, ex in (("cmp", B(">", X, I(3))), ("arith", B(">", B("+", X, Y), I(3))), ("and", B("&&", B(">", X, I(3)), B("<", Y, I(4)))),
                    ("plain", B("*", X, I(2)))):
        body, ents = [], {}
        for n, (proto, px) in enumerate((("small-lamp", 10), ("small-lamp", 12), ("inserter", 14))):
            body += [("place", f"e{n}", proto, I(px), I(20), None), ("prop", f"e{n}", "enable", ex)]
            ents[f"e{n}"] = (proto, px, 20, ex)
        yield mk(f"identical-x3/{tag}", body, ents, {}, {})
    yield mk("identical-in-loop", [("for", "j", ("range", 0, 3, None), [("place", "e", "small-lamp", B("+", V("j"), I(10)), I(22), None),
                                                                       ("prop", "e", "enable", B("&&", B(">", X, I(3)), B("<", Y, I(4))))])],
             {f"e{n}": ("small-lamp", 10 + n, 22, B("&&", B(">", X, I(3)), B("<", Y, I(4)))) for n in range(3)}, {}, {})
    yield mk("three-share-source", [("place", "e1", "small-lamp", I(10), I(20), None), ("prop", "e1", "enable", B(">", X, I(3))),
                                    ("place", "e2", "inserter", I(12), I(20), None), ("prop", "e2", "enable", B("<", X, I(0))),
                                    ("place", "e3", "small-lamp", I(14), I(20), None), ("prop", "e3", "enable", B(">", B("*", X, I(2)), I(7)))],
             {"e1": ("small-lamp", 10, 20, B(">", X, I(3))), "e2": ("inserter", 12, 20, B("<", X, I(0))),
              "e3": ("small-lamp", 14, 20, B(">", B("*", X, I(2)), I(7)))}, {}, {})
    # a gated derived bundle consumed by an entity, with further consumers of the source / the derived bundle
    b2 = ("bundle", [V("x"), V("y")])
    gpre = [("decl", "Bundle", "k", b2), ("decl", "Bundle", "p", B("*", V("k"), I(2))),
            ("decl", "Bundle", "r", ("cond", B(">", ("sel", V("k"), "signal-X"), I(2)), V("p")))]
    e_r = B(">", ("any", V("r")), I(7))
    for tag, extra, ex in (("plain", [], None), ("+lamp-on-source", [("place", "e2", "small-lamp", I(3), I(0), None)], B(">", ("any", V("k")), I(4))),
                           ("+lamp-on-derived", [("place", "e2", "small-lamp", I(3), I(0), None)], B(">", ("any", V("p")), I(7)))):
        body = gpre + [("place", "e1", "small-lamp", I(0), I(0), None), ("prop", "e1", "enable", e_r)]
        ents = {"e1": ("small-lamp", 0, 0, e_r)}
        if ex is not None:
            body += extra + [("prop", "e2", "enable", ex)]
            ents["e2"] = ("small-lamp", 3, 0, ex)
        yield mk(f"gated-derived-bundle/{tag}", body, ents, {}, {})
    # the same with a CONSTANT bundle literal (one combinator carrying both members), one case per value pair
    for av, bv in ((1, 7), (3, 7), (5, 2), (9, -4), (0, 0), (4, 4)):
        kb = ("bundle", [("lit", "signal-A", I(av)), ("lit", "signal-B", I(bv))])
        cpre = [("decl", "Bundle", "k", kb), ("decl", "Bundle", "p", B("*", V("k"), I(2))),
                ("decl", "Bundle", "r", ("cond", B(">", ("sel", V("k"), "signal-A"), I(2)), V("p")))]
        e_r2 = B(">", ("any", V("r")), I(10))
        for tag, ex in (("plain", None), ("+lamp-on-source", B(">", ("any", V("k")), I(10))), ("+lamp-on-derived", B(">", ("any", V("p")), I(10)))):
            body = cpre + [("place", "e1", "small-lamp", I(0), I(0), None), ("prop", "e1", "enable", e_r2)]
            ents = {"e1": ("small-lamp", 0, 0, e_r2)}
            if ex is not None:
                body += [("place", "e2", "small-lamp", I(3), I(0), None), ("prop", "e2", "enable", ex)]
                ents["e2"] = ("small-lamp", 3, 0, ex)
            yield mk(f"gated-const-bundle/{tag}/{av},{bv}", body, ents, {}, {})
    # one entity output used in two merges (balanced-loader pattern from the spec)
    c1, c2 = ("output", "c1"), ("output", "c2")
    pre = [("place", "c1", "steel-chest", I(30), I(20), None), ("place", "c2", "steel-chest", I(31), I(20), None),
           ("decl", "Bundle", "total", ("bundle", [c1, c2])), ("decl", "Bundle", "navg", B("/", V("total"), I(-2))),
           ("decl", "Bundle", "in1", ("bundle", [V("navg"), c1])), ("decl", "Bundle", "in2", ("bundle", [V("navg"), c2]))]
    e1x, e2x = B("<", ("any", V("in1")), I(0)), B("<", ("any", V("in2")), I(0))
    yield mk("balanced-loader", pre + [("place", "e1", "inserter", I(30), I(21), None), ("prop", "e1", "enable", e1x),
                                       ("place", "e2", "inserter", I(31), I(21), None), ("prop", "e2", "enable", e2x)],
             {"e1": ("inserter", 30, 21, e1x), "e2": ("inserter", 31, 21, e2x)}, {},
             {"c1": ("steel-chest", 30, 20), "c2": ("steel-chest", 31, 20)})
    tot = B(">", ("sel", V("total"), "iron-plate"), I(100))
    yield mk("two-chests-sum", pre[:3] + [("place", "e1", "small-lamp", I(30), I(22), None), ("prop", "e1", "enable", tot)],
             {"e1": ("small-lamp", 30, 22, tot)}, {}, {"c1": ("steel-chest", 30, 20), "c2": ("steel-chest", 31, 20)})


class C06(core.Check):
    pid = "C06"
    level = "exploration"
    timeout = 300
    rule = ("every prototype of {lamp, inserter, belt, pump, power switch, train stop, assembler} x every enable form "
            "(inlinable comparison with every comparator against an integer or a second signal, integer on the left, plain signal, arithmetic, &&, ||, !, unary minus, sums and comparisons of comparisons, projection, function result, named comparison, any/all of a bundle, any/all/selection "
            "of a chest/tank output, scaled chest output) plus shared-comparison / shared-source / balanced-loader programs "
            "x the full product of input values and chest/tank contents; the entity's circuit_condition is evaluated on "
            "the networks actually wired to it and must equal (expr > 0); non-trivial = the condition took both values")
    assumptions = ["circuit model fv/sim.py: a wired entity without a circuit condition is always enabled",
                   "chest/tank contents are an environment input of the model"]

    def cases(self, tier):
        return list(programs(tier))

    def run_case(self, case):
        stmts = gen.thaw(case["stmts"])
        inputs = case["inputs"]
        try:
            circ, inp, spec = explore.compile_with_inputs(stmts, inputs, {"optimize": True})
        except harness.Rejected as ex:
            return {"status": "rejected", "detail": str(ex)[:300]}
        if inp.problems or spec:
            return {"status": "inconclusive", "detail": str(inp.problems)}
        nums = {}
        for name, (proto, x, y, _e) in case["entities"].items():
            f = explore.find_entity_at(circ.bp, proto, x, y)
            if len(f) != 1:
                return {"status": "fail", "digest": core.sha(["count", name, len(f)]),
                        "detail": {"src": lang.show_prog(stmts), "problem": f"{len(f)} x {proto} at {(x, y)}"}}
            nums[name] = f[0]
        envnum = {}
        for name, (proto, x, y) in case["env"].items():
            f = explore.find_entity_at(circ.bp, proto, x, y)
            if len(f) != 1:
                return {"status": "fail", "digest": core.sha(["envcount", name, len(f)]),
                        "detail": {"src": lang.show_prog(stmts), "problem": f"{len(f)} x {proto} at {(x, y)}"}}
            envnum[name] = (f[0], TANK_VALS if proto == "storage-tank" else ENV_VALS)
        envnames = sorted(envnum)
        envgrid = list(itertools.product(*[envnum[n][1] for n in envnames])) or [()]
        mism = {}
        seen = set()
        n = 0
        for v in explore.grid(case["domains"], inputs):
            inp.set(v)
            for ev_ in envgrid:
                contents = dict(zip(envnames, ev_))
                circ.env = {envnum[nm][0]: {explore.key_of(k): x for k, x in c.items()} for nm, c in contents.items()}
                env = lang.Env(v)
                env.entity_output = lambda nm: contents[nm]
                lang.run(stmts, env)
                try:
                    st, k = circ.settle(circ.initial_state())
                except Unmodelled:
                    continue
                n += 1
                for name, (proto, x, y, expr) in case["entities"].items():
                    want = lang.val(lang.ev(gen.thaw(expr), env)) > 0
                    if k is None:
                        got = "unsettled"
                    else:
                        got, info = circ.entity_condition(st, nums[name])
                    seen.add((name, got))
                    if got != want:
                        mism.setdefault(name, []).append((v, contents, got, want, info))
        res = {"evaluations": n, "valuations": n, "compiles": 2, "nontrivial": len(seen) > len(case["entities"]),
               "sample": {"src": lang.show_prog(stmts)[:500], "valuations": n}}
        if mism:
            res["status"] = "fail"
            res["digest"] = core.sha({k: [(a, b, c) for a, b, c, _, _ in v] for k, v in mism.items()})
            f = {k: v[0] for k, v in mism.items()}
            res["detail"] = {"src": lang.show_prog(stmts), "first_mismatch": {k: {"inputs": a, "contents": b, "enabled": c, "expected": d, "how": e, "n_bad": len(mism[k])}
                                                                              for k, (a, b, c, d, e) in f.items()}}
        else:
            res["status"] = "pass" if n else "inconclusive"
        return res


if __name__ == "__main__":
    core.main_for(C06)
