import json


def allprobs(d):
    return json.dumps(d)


RULES = [
    ("C08-F3", "forced fallback grid with power poles: _fallback_grid_layout ignores the fixed positions of the pole grid "
               "and places combinators on top of poles (overlap)",
     lambda c, d: "overlap" in allprobs(d) and "no-solution" in allprobs(d)),
    ("C08-F2", "--power-poles small: wires to small electric poles (used as power poles and as wire relays) are planned "
               "with the 9-tile span of a medium pole, but a small pole reaches 7.5 tiles",
     lambda c, d: c["poles"] == "small" and "small-electric-pole" in allprobs(d)),
    ("C08-F1", "the explicit wires of memory cells and latches (gate-gate feedback, latch-multiplier, remapper) bypass "
               "relay routing: under a stretched or fallback-grid placement they are longer than the 9-tile reach",
     lambda c, d: "small-electric-pole" not in allprobs(d) and "wire-too-long" in allprobs(d)),
]
