RULES = [
    ("C04-F1", "a chain in which one held input is added twice (m.write(m.read() + d + d), also with other steps in between): the cell iterates "
               "2*m + 2*d instead of m + 2*d (the feedback is counted twice)",
     lambda c, d: c["chain"].count("+h") >= 2),
]
