RULES = [
    ("C04-F1", "m.write(m.read() + d + d) with one held input used in two chained additions: the cell iterates "
               "2*m + 2*d instead of m + 2*d (the feedback is counted twice)",
     lambda c, d: c["chain"] == ["+h", "+h"]),
]
