RULES = [
    ("C04-F2", "a held value of the cell's own signal type that is produced by a combinator (Signal hk = hm * 2, both on the "
               "cell's type) added to the cell: both operands of the feedback adder read the same wire colour, so the "
               "cell iterates 2*m + 2*hk instead of m + hk (single-step loops and unoptimised chains)",
     lambda c, d: "+hk" in c["chain"]),
    ("C04-F1", "a chain in which one held input is added twice (m.write(m.read() + d + d), also with other steps in between): the cell iterates "
               "2*m + 2*d instead of m + 2*d (the feedback is counted twice)",
     lambda c, d: c["chain"].count("+h") + c["chain"].count("h-") >= 2),
]
