RULES = [
    ("C15-F1", "a call whose arguments are all integer literals (f(7, 2)) is folded by the IR constant propagation: "
               "the named result is replaced by an unnamed '<op>_N_folded' constant (no anchor, not labelled) and an "
               "entity condition fed by it is left unwired, while the inlined twin yields the named value",
     lambda c, d: c["args"] == "int,int"),
    ("C15-F2", "a function with a local Memory called twice: the memory id is derived from the bare name, so both "
               "call sites share one cell instead of getting their own copy",
     lambda c, d: c.get("kind") == "memory" and c["args"] == "two-calls"),
]
