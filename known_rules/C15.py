RULES = [
    ("C15-F1", "a call whose arguments are all integer literals (f(7, 2)) is folded by the IR constant propagation: "
               "the named result is replaced by an unnamed '<op>_N_folded' constant (no anchor, not labelled) and an "
               "entity condition fed by it is left unwired, while the inlined twin yields the named value",
     lambda c, d: c["args"] == "int,int"),
    ("C15-F2", "a function with a local Memory called twice: the memory id is derived from the bare name, so both "
               "call sites share one cell instead of getting their own copy",
     lambda c, d: c.get("kind") == "memory" and c["args"] == "two-calls"),
    ("C15-F3", "an integer literal bound to a Signal parameter is materialised on a compiler-chosen signal and wired to the "
               "comparison; a comparison result of that type that is later added to the other argument reads the constant's "
               "wire as well: g(2, a) with body '(x > y) * 2 + y' yields 2 too much (wire cross-talk, same root cause as C01-F8)",
     lambda c, d: c["f"] == "mixed-cmp-arith" and c["args"].startswith("lit,")),
]
