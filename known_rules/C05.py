RULES = [
    ("C05-F2", "two latches on the SAME signal type that share a reset comparison: the shared reset decider's output wire joins "
               "both latches' input networks, the two set values are summed there and neither latch resets (same "
               "root cause as C01-F8)",
     lambda c, d: c.get("family") == "two-latches" and c["tag"].startswith("chained")),
    ("C05-F1", "non-inlined reset-priority latch (write(v, reset=r, set=s) with signals or comparisons on different inputs): "
               "the single 'S > R' decider adds its own feedback to S, so when reset becomes active while set is still "
               "active the cell stays on (S + feedback = 2 > R = 1); the declared priority is not honoured",
     lambda c, d: c["order"] == "rs"),
]
