RULES = [
    ("C05-F1", "reset-priority latch (write(v, reset=r, set=s)): when reset becomes active while set is still active "
               "(or both are active at power-on for inlined comparisons) the cell stays on; the declared priority is "
               "not honoured, in the inlined and in the non-inlined implementation",
     lambda c, d: c["order"] == "rs"),
]
