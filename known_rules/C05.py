RULES = [
    ("C05-F2", "a latch whose set condition reads another latch (set = l1.read() > 0, reset = t > 0, set priority): after "
               "both were on, set released (l1 reset) and reset still active, the second latch stays on",
     lambda c, d: c.get("family") == "two-latches" and c["tag"].startswith("chained")),
    ("C05-F1", "non-inlined reset-priority latch (write(v, reset=r, set=s) with signals or comparisons on different inputs): "
               "the single 'S > R' decider adds its own feedback to S, so when reset becomes active while set is still "
               "active the cell stays on (S + feedback = 2 > R = 1); the declared priority is not honoured",
     lambda c, d: c["order"] == "rs"),
]
