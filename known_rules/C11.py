RULES = [
    ("C11-F1", "a typed literal whose value is a constant expression, (\"T\", x op y), yields value 0 plus a stray "
               "anonymous constant (same root cause as C01-F5): the folded value never reaches the result",
     lambda c, d: c.get("site") == "typed-literal"),
    ("C11-F2", "'cond : (x op y)' with a parenthesised constant expression as output value copies an input signal "
               "instead of emitting the folded constant",
     lambda c, d: c.get("site") == "cond-value"),
    ("C11-F3", "an anonymous typed constant folded with a literal and then added to a same-typed input is dropped "
               "from the wire merge: (\"signal-A\", x) op y + a yields a",
     lambda c, d: c.get("site") == "lit-operand-same-type"),
    ("C11-F4", "the IR-level folder (ConstantPropagationOptimizer._fold_arithmetic, reached by constants bound to "
               "Signal parameters) uses Python floor division / modulo and no 32-bit wrap; a unit test pins "
               "-10 / 3 == -4 there, so it cannot be repaired with the suite unedited",
     lambda c, d: c.get("site") == "ir-fold"),
]
