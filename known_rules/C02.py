RULES = [
    ("C02-F4", "a derived bundle p = bb OP k consumed both by a gate '(bb[\"t\"] > c) : p' and by a selection p[\"u\"] + 1: the "
               "selection reads 0 for the member (the selected member never reaches the adder)",
     lambda c, d: "+sel-result" in c["tag"]),
    ("C02-F5", "a gated bundle g1 = (s > 0) : bb that feeds a second gate AND an each-arithmetic (q = g1 * 3): the "
               "each-arithmetic reads nothing (its input wire carries no member), besides the leak of C02-F1 in the second gate",
     lambda c, d: "+inner-exposed" in c["tag"]),
    ("C02-F1", "gating '(s CMP k) : bundle': the condition signal travels on the same network as the bundle and the "
               "signal-everything output passes it on, so the scalar leaks into the result",
     lambda c, d: c["tag"].startswith("gate")),
    ("C02-F2", "filter '(bundle CMP s) : bundle' with a signal scalar: the scalar is part of the each-input, is compared "
               "with itself and leaks into the result for ==, <=, >=",
     lambda c, d: c["tag"].startswith("filter") and " s :bb" in c["tag"]),
    ("C02-F3", "a bundle literal that contains another bundle variable ({bb, c}, {b1, b2}) loses the members of the "
               "inner bundle: only the directly listed signals are wired to the result",
     lambda c, d: c["tag"] in ("lit-nested", "lit-merge2", "chain merge then each")),
]
