RULES = [
    ("C09-F1", "more than 500 entities: the layout stage decomposes the graph into components and adds per-component "
               "offsets to user-placed (fixed) entities, so the lamps come out spread over thousands of tiles instead of "
               "at their coordinates",
     lambda c, d: c["program"] in ("grid-500", "grid-501", "wired-521", "grid-1001")),
]
