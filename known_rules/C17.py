RULES = [
    ("C17-F1", "a user function that passes its parameters to a second user function and to a library function with the order "
               "swapped (outer(b, a) = inner(b, a) + min(a, b), inner(a, b) = max(b, a) - a): the subtraction reads max(..) and the "
               "input x on the same red wire, which is also the input network of the deciders that compute max(..): the emitted "
               "circuit contains a combinational loop and never settles (one wire colour per source; same root cause as C01-F3/F8)",
     lambda c, d: c.get("fn") == "wrapped:two-level"),
]
