def probs(d):
    return [p[1] for p in d.get("problems", [])]


RULES = [
    ("C20-F5", "a member of a wire merge of two same-type constants (Signal r = a + k1) that has another reader outside the merge "
               "(an alias anchor, a function call) shares its single wire colour with the merge: the other reader sees a + k1 "
               "instead of a (one colour per source; same root cause as C01-F3)",
     lambda c, d: c["producer"] == "wire-merge" and c["consumption"] in ("input-aliased", "input-through-func-local")
     and all(p.startswith("value ") for p in probs(d))),
    ("C20-F4", "a function-local variable spelled like a top-level alias (Signal r2 = r; ... func g(..) { Signal r2 = ..}) marks "
               "the top-level name as referenced: the alias gets no anchor although nothing consumes it",
     lambda c, d: c["consumption"] == "alias-local-clash"),
    ("C20-F1", "the same expression declared under two names (or, for bundle each/filter results, repeated anonymously in a later statement): with optimisation CSE removes one producer and "
               "the second name gets no anchor (not exposed)",
     lambda c, d: c["consumption"] in ("twice-same-expr", "repeated-anonymously") and c["optimize"] and any("not exposed" in p for p in probs(d))),
    ("C20-F2", "an alias of a bundle each/filter/input result (Bundle r2 = r) that is the only unconsumed name of the "
               "value is not exposed: no anchor labelled r2",
     lambda c, d: c["consumption"] in ("alias-first-consumed", "alias-both-unconsumed") and any("not exposed" in p for p in probs(d))),
    ("C20-F3", "combinators produced by bundle each-arithmetic are labelled '[file] name (op)' without the source line",
     lambda c, d: all("lacks line" in p for p in probs(d))),
]
