RULES = [
    ("C13-F1", "an untyped variable whose NAME is a Factorio signal name (Signal coal = 5;) is emitted on that signal "
               "(the variable name is a candidate in _resolve_signal_identity) even when the program uses that "
               "signal explicitly: both values are summed on one bundle wire",
     lambda c, d: c["tag"] == "named-like-item"),
]
