def kinds(d):
    return {p[0] for p in d["first"]["problems"]}


RULES = [
    ("C18-F1", "big electric poles: the pole table assumes a supply radius of 5 tiles, the game data says 2 "
               "(supply_area_distance): the grid is too sparse and consumers lie outside every supply area",
     lambda c, d: c["T"] == "big" and "unpowered" in kinds(d)),
    ("C18-F2", "after trimming the poles that cover nothing, the remaining poles are no longer joined into one copper "
               "network (islands around separated user entities / spread-out placements)",
     lambda c, d: "poles-not-one-network" in kinds(d)),
    ("C18-F3", "the pole grid is laid out from an estimated bounding box before placement; a feasible placement that is "
               "larger than the estimate (stretched answer, fallback grid) leaves consumers outside every supply area",
     lambda c, d: kinds(d) == {"unpowered"}),
]
