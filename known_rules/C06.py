RULES = [
    ("C06-F1", "pumps and power switches (entities without a 'circuit_enabled' attribute in draftsman) are wired but "
               "receive no circuit condition: the emitter stores the condition in an ignored dict, so the entity is "
               "always enabled",
     lambda c, d: c["tag"].startswith("pump/") or c["tag"].startswith("power-switch/")),
    ("C06-F2", "balanced-loader pattern (one chest output used in the 'total' merge and in its own 'in' merge): the "
               "inserter condition any({navg, c.output}) < 0 does not see the negative average",
     lambda c, d: c["tag"] == "balanced-loader"),
]
