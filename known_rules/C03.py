RULES = [
    ("C03-F2", "one named value used as the raw write enable of two cells (when=dm twice), or as the data of one cell and "
               "the enable of another when it is a comparison: the value is retyped in place onto the write-enable "
               "signal and the other use loses it (cell follows 1 instead of the data / holds a stale value)",
     lambda c, d: c.get("family") == "two-cells" and c.get("tag") in ("arith-enable-twice", "cmp-data-and-enable")),
    ("C03-F1", "a reader that combines the written value with the cell's own read (Signal o = v - m.read(), v of the "
               "cell's signal type): the data source and the hold gate are both locked to red, the data source joins "
               "the feedback network and the held value grows every tick (the circuit never settles)",
     lambda c, d: c.get("readers") == "mix+arith"),
]
