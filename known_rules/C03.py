RULES = [
    ("C03-F1", "a reader that combines the written value with the cell's own read (Signal o = v - m.read(), v of the "
               "cell's signal type): the data source and the hold gate are both locked to red, the data source joins "
               "the feedback network and the held value grows every tick (the circuit never settles)",
     lambda c, d: c.get("readers") == "mix+arith"),
]
