"""Attribution of the C01 cases that fail on the pinned tree to root causes (development-time
labelling only; at run time a case is matched by exact id and observation digest)."""
import json


def src(case, detail):
    return detail["src"] if isinstance(detail, dict) else ""


def last(case, detail):
    return src(case, detail).strip().splitlines()[-1]


def has(case, *subs):
    return all(s in json.dumps(case["stmts"]) for s in subs)


def multicond(case, detail):
    s = json.dumps(case["stmts"])
    return '"cond", ["paren", ["bin", "&&"' in s or '"cond", ["paren", ["bin", "||"' in s


def three_same(case, detail):
    ins = case["inputs"]
    return "u" in ins and ("a" in ins or "b" in ins)


RULES = [
    ("C01-F9", "the same expression declared under two names: with optimisation CSE removes the second producer and the "
               "second name gets no anchor, so its value cannot be observed (same root cause as C10-F1 / C20-F1)",
     lambda c, d: c["family"] == "S9" and c.get("tag") in ("identical", "identical3")),
    ("C01-F10", "anonymous typed constants of the same type as a wire-merged input are dropped from the merge: "
                "(\"signal-A\", 2) + (\"signal-A\", 3) + a yields a (same root cause as C11-F3)",
     lambda c, d: c["family"] == "S9" and c.get("tag") == "fold-merge"),
    ("C01-F8", "two results that share one input, each with its own same-typed constant operand (k1 * a, k2 * a with k1, k2 "
               "on one signal type): the shared input's wire joins both constants into one network, so each result "
               "sees k1 + k2", lambda c, d: c["family"] == "S8"),
    ("C01-F1", "a multi-condition decider (&&/|| before ':') gets no per-operand wire selection: operands and the "
               "copied value of the same signal type are summed on one network", multicond),
    ("C01-F2", "an untyped value is allocated signal-A although the program uses signal-A explicitly; with two more "
               "signal-A sources at one combinator the two wire colours cannot separate them (see C13)", three_same),
    ("C01-F3", "a wire-merged sum (t1 = a + b of same-type constants) used together with one of its own members "
               "reads that member once instead of twice",
     lambda c, d: c["family"] == "S6" and "Signal t1 = a + b;" in src(c, d)),
    ("C01-F4", "a constant result folded by the IR optimiser loses its name: the constant combinator is labelled "
               "'decider_N_folded'/'arith_N_folded' and no anchor exists, so the named result cannot be found",
     lambda c, d: c["family"] == "S2" and not c["inputs"]),
    ("C01-F5", "a typed literal whose value is a constant expression yields value 0 plus a stray anonymous constant",
     lambda c, d: c["family"] == "S7" and ('("signal-C", 5 * 2 - 9)' in last(c, d) or '("iron-plate", 100 / 2)' in last(c, d))),
    ("C01-F6", "projecting a conditional value '(c : v) | \"T\"' yields 0: the projection reads the wrong signal",
     lambda c, d: has(c, '["proj", ["cond"')),
    ("C01-F7", "'x && (c : k)' multiplies the operands instead of normalising them to 0/1, giving k instead of 1",
     lambda c, d: "a > 2 && c < 3 : 5" in last(c, d)),
]
