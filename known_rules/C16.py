RULES = [
    ("C16-F1", "a loop iterator that shadows an outer int of the same name leaks past the loop: after 'int n = 5; for n in "
               "1..3 {..}' a later use of n sees the last iterator value 2 instead of 5",
     lambda c, d: c.get("tag") == "iterator-shadows-outer-int"),
]
