RULES = [
    ("C12-F1", "three same-type producers that meet pairwise (r = t1 - t2; r2 = t2 - t3; r3 = t1 - t3, all on signal-A) cannot be "
               "separated with two wire colours; the program is already wrong alone, and WHICH pair collides depends on the "
               "node ids / layout, which shift when unrelated statements (here: far-apart entities with relays) are interleaved, "
               "so P's outputs differ between build(P) and build(P;Q)",
     lambda c, d: c["P"] == "triangle"),
]
