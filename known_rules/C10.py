RULES = [
    ("C10-F4", "two latches on one signal type sharing a reset comparison: with optimisation the comparison is shared and "
               "its output wire joins both latches' input networks (cross-talk, C05-F2); --no-optimize keeps two "
               "deciders and behaves differently",
     lambda c, d: c["tag"].startswith("c05:") and "chained/signal-L" in c["tag"]),
    ("C10-F3", "a constant result folded by the IR optimiser (Signal r = !0;) is emitted as an unnamed '<op>_N_folded' "
               "constant with optimisation and as the named result without (same root cause as C01-F4)",
     lambda c, d: c["tag"] == "S2" and not c["inputs"]),
    ("C10-F2", "the CSE key lacks the output mode: with optimisation '(bb > 0) : 1' is merged into '(bb > 0) : bb' and "
               "its result and anchor disappear; --no-optimize keeps both",
     lambda c, d: c["tag"] == "bundle-filter-mode"),
    ("C10-F1", "two names bound to the same expression (r1 = a + c; r2 = a + c): with optimisation the second name "
               "loses its output anchor (the result is no longer exposed under that name); --no-optimize keeps both",
     lambda c, d: c["tag"] in ("identical", "identical3")),
]
