RULES = [
    ("C19-F1", "compile history leaks through draftsman's global signal table: _resolve_signal_identity registers internal "
               "labels (e.g. 'bundle', 'mem_counter') as signals; after any earlier compilation in the same process a "
               "program with an untyped variable of such a name (Signal bundle = 7;) puts it on a signal literally named "
               "'bundle' instead of an allocated virtual signal",
     lambda c, d: c["program"] == "hist-variable-named-mem-counter" and c["group"] in ("histories", "deviations", "faults")),
]
